(* Model of src/sync/manual_reset_event.rs (EventState + GenericWaitForEventFuture).
   One [step] = one critical section of the Rust code.  Arms follow the Rust
   [match] arms one for one. *)
From FI Require Export Base.

Inductive pst := New | Waiting | Done.

Record fut := mkFut {
  f_alive : bool;            (* the future object exists (created, not dropped) *)
  f_hp : bool;               (* `event: Option<&Event>` is Some  = !is_terminated() *)
  f_st : pst;                (* wait_node.state *)
  f_task : option wid;       (* wait_node.task *)
  (* ghost, never observed: *)
  f_polled : bool;           (* has been polled at least once *)
  f_seen : bool;             (* the event was set at some instant since the first poll *)
  f_lastw : option wid       (* waker passed to the most recent poll *)
}.

Definition absent : fut := mkFut false false New None false false None.
Definition fresh : fut := mkFut true true New None false false None.

Record state := mkState {
  is_set : bool;
  waiters : list fid;        (* head = newest *)
  futs : list fut
}.

Inductive op :=
| Create (f : fid) | Poll (f : fid) (w : wid) | DropFut (f : fid)
| SetEv | ResetEv | IsSet.

Definition get (s : state) (f : fid) : fut := nth f (futs s) absent.
Definition setf (s : state) (f : fid) (x : fut) : state :=
  mkState (is_set s) (waiters s) (upd f x (futs s)).

Definition init (k : nat) (b : bool) : state := mkState b [] (repeat absent k).

(* the documented contract: which calls a safe-Rust client can make at all,
   plus "no poll after completion" *)
Definition legal (s : state) (o : op) : bool :=
  match o with
  | Create f => Nat.ltb f (length (futs s)) && negb (f_alive (get s f))
  | Poll f _ => f_alive (get s f) && f_hp (get s f)
  | DropFut f => f_alive (get s f)
  | _ => true
  end.

(* still a call safe Rust can make, but outside the contract *)
Definition callable (s : state) (o : op) : bool :=
  match o with
  | Poll f _ => f_alive (get s f)
  | _ => legal s o
  end.

Definition st_code (p : pst) : N := match p with New => 0 | Waiting => 1 | Done => 2 end%N.

Definition term_of (x : fut) : N := if f_alive x then (if f_hp x then 0 else 1)%N else 2%N.

Definition snapshot (s : state) : list N :=
  flat_map (fun f => [nN f; st_code (f_st (get s f)); optN (f_task (get s f))]) (waiters s).

Definition mk_obs (s : state) (res : list N) (wakes : list wid) : obs :=
  mkObs res (map nN wakes) [] [bN (is_set s)] (map term_of (futs s)) (snapshot s) 0.

(* set(): reverse_drain of the waiters, oldest first *)
Fixpoint wake_all (fs : list fut) (order : list fid) (acc : list wid) : list fut * list wid :=
  match order with
  | [] => (fs, acc)
  | f :: r =>
      let x := nth f fs absent in
      let acc' := match f_task x with Some w => acc ++ [w] | None => acc end in
      wake_all (upd f (mkFut (f_alive x) (f_hp x) Done None (f_polled x) (f_seen x) (f_lastw x)) fs) r acc'
  end.

(* ghost: every polled, not yet completed future has now seen the event set *)
Definition mark_seen (x : fut) : fut :=
  if f_alive x && f_polled x
  then mkFut (f_alive x) (f_hp x) (f_st x) (f_task x) (f_polled x) true (f_lastw x)
  else x.

Definition step (s : state) (o : op) : state * obs :=
  match o with
  | Create f =>
      let s' := setf s f fresh in (s', mk_obs s' [R_UNIT] [])
  | Poll f w =>
      let x := get s f in
      if negb (f_hp x) then (s, mk_obs s [R_PANIC] [])        (* expect("polled ... after completion") *)
      else match f_st x with
      | New =>
          if is_set s then
            let s' := setf s f (mkFut true false Done (f_task x) true true (Some w)) in
            (s', mk_obs s' [R_READY] [])
          else if memb f (waiters s) then (s, mk_obs s [R_UB] [])   (* add_front of a linked node *)
          else
            let s' := mkState (is_set s) (f :: waiters s)
                        (upd f (mkFut true true Waiting (Some w) true false (Some w)) (futs s)) in
            (s', mk_obs s' [R_PENDING] [])
      | Waiting =>
          let s' := setf s f (mkFut true true Waiting (Some w) true (f_seen x) (Some w)) in
          (s', mk_obs s' [R_PENDING] [])
      | Done =>
          let s' := setf s f (mkFut true false Done (f_task x) true (f_seen x) (Some w)) in
          (s', mk_obs s' [R_READY] [])
      end
  | DropFut f =>
      let x := get s f in
      if f_hp x then
        match f_st x with
        | Waiting =>
            if memb f (waiters s) then
              let s' := mkState (is_set s) (remove f (waiters s)) (upd f absent (futs s)) in
              (s', mk_obs s' [R_UNIT] [])
            else (s, mk_obs s [R_PANIC] [])      (* "Future could not be removed from wait queue" *)
        | _ => let s' := setf s f absent in (s', mk_obs s' [R_UNIT] [])
        end
      else let s' := setf s f absent in (s', mk_obs s' [R_UNIT] [])
  | SetEv =>
      if is_set s then
        let s' := mkState true (waiters s) (map mark_seen (futs s)) in (s', mk_obs s' [R_UNIT] [])
      else
        let '(fs, wk) := wake_all (futs s) (rev (waiters s)) [] in
        let s' := mkState true [] (map mark_seen fs) in
        (s', mk_obs s' [R_UNIT] wk)
  | ResetEv =>
      let s' := mkState false (waiters s) (futs s) in (s', mk_obs s' [R_UNIT] [])
  | IsSet => (s, mk_obs s [Rbool (is_set s)] [])
  end.

(* ---------------------------------------------------------------------- *)
(* reachability under the contract *)
Inductive Reach (k : nat) (b : bool) : state -> Prop :=
| reach_init : Reach k b (init k b)
| reach_step s o : Reach k b s -> legal s o = true -> Reach k b (fst (step s o)).

(* ---------------------------------------------------------------------- *)
(* numeric encoding used by the correspondence check *)
Definition decode (l : list N) : option op :=
  match l with
  | [0; f] => Some (Create (N.to_nat f))
  | [1; f; w] => Some (Poll (N.to_nat f) (N.to_nat w))
  | [2; f] => Some (DropFut (N.to_nat f))
  | [3] => Some SetEv
  | [4] => Some ResetEv
  | [5] => Some IsSet
  | _ => None
  end%N.

Definition encode (o : op) : list N :=
  match o with
  | Create f => [0; nN f]
  | Poll f w => [1; nN f; nN w]
  | DropFut f => [2; nN f]
  | SetEv => [3]
  | ResetEv => [4]
  | IsSet => [5]
  end%N.

Definition bad_obs : obs := mkObs [R_BADOP] [] [] [] [] [] 0.

Definition mstep (s : state) (l : list N) : state * obs :=
  match decode l with
  | Some o => if callable s o then step s o else (s, bad_obs)
  | None => (s, bad_obs)
  end.

Definition minit (cfg : list N) : state :=
  match cfg with
  | [k; b] => init (N.to_nat k) (negb (N.eqb b 0))
  | _ => init 0 false
  end.

(* exploration alphabet: every legal call, wakers 2f / 2f+1 for slot f *)
Definition enabled (s : state) : list (list N) :=
  map encode
    (flat_map (fun f =>
       let x := get s f in
       if f_alive x then
         (if f_hp x then [Poll f (2 * f); Poll f (2 * f + 1)] else []) ++ [DropFut f]
       else [Create f]) (seq 0 (length (futs s)))
     ++ [SetEv; ResetEv; IsSet]).

