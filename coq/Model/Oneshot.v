(* Model of src/channel/oneshot.rs and src/channel/oneshot_broadcast.rs (ChannelState,
   the shared sender / receiver handles) with the receive futures of channel_future.rs.
   [bcast s = false]: single consumer (the value is taken); [true]: broadcast (cloned). *)
From FI Require Export Base.

Inductive rst := RUnreg | RReg | RNotified.

Record rfut := mkR {
  r_alive : bool; r_hp : bool; r_st : rst; r_task : option wid;
  (* ghost *) r_woken : bool; r_lastw : option wid
}.
Definition rabsent : rfut := mkR false false RUnreg None false None.

Record state := mkState {
  bcast : bool;
  fulfilled : bool;
  value : option tag;
  waiters : list fid;        (* head = newest *)
  rfs : list rfut;
  has_sender : bool;         (* shared flavour: the (single, non-cloneable) sender handle is alive *)
  receivers : nat;           (* live receiver handles *)
  pend_rclose : nat;         (* receiver drops that saw count 1 and have not yet called close() *)
  counted : bool;            (* true: receiver handles are counted (repaired broadcast / single
                                consumer, whose receiver cannot be cloned); false: the pinned
                                broadcast code, where every receiver drop closes *)
  sent : bool;               (* ghost: a send() succeeded *)
  explicit : bool;           (* ghost: close() was called explicitly *)
  gone : bool
}.

Inductive op :=
| Send (v : tag) | Close
| CreateRecv (f : fid) | PollRecv (f : fid) (w : wid) | DropRecv (f : fid)
| DropSender
| CloneReceiver | DropReceiverDec | DropReceiverClose
| Teardown.

Definition getr (s : state) (f : fid) : rfut := nth f (rfs s) rabsent.

Definition init (k : nat) (b cnt : bool) : state :=
  mkState b false None [] (repeat rabsent k) true 1 0 cnt false false false.

Definition legal (s : state) (o : op) : bool :=
  negb (gone s) &&
  match o with
  | Send _ => has_sender s
  | Close => true                              (* borrowed flavour: close() on the channel *)
  | CreateRecv f => Nat.ltb f (length (rfs s)) && negb (r_alive (getr s f)) && Nat.ltb 0 (receivers s)
  | PollRecv f _ => r_alive (getr s f) && r_hp (getr s f)
  | DropRecv f => r_alive (getr s f)
  | DropSender => has_sender s
  | CloneReceiver => bcast s && Nat.ltb 0 (receivers s)
  | DropReceiverDec => Nat.ltb 0 (receivers s)
  | DropReceiverClose => Nat.ltb 0 (pend_rclose s)
  | Teardown => true
  end.

Definition callable (s : state) (o : op) : bool :=
  negb (gone s) &&
  match o with
  | PollRecv f _ => r_alive (getr s f)
  | _ => legal s o
  end.

Definition V_DELIVERED : N := 1.
Definition V_BACK : N := 2.
Definition V_DROPPED : N := 3.

Definition rst_code (p : rst) : N := match p with RUnreg => 0 | RReg => 1 | RNotified => 2 end%N.
Definition rterm (x : rfut) : N := if r_alive x then (if r_hp x then 0 else 1)%N else 2%N.

Definition snapshot (s : state) : list N :=
  flat_map (fun f => [nN f; rst_code (r_st (getr s f)); optN (r_task (getr s f))]) (waiters s).

Definition mk_obs (s : state) (res : list N) (wakes : list wid) (vals : list N) : obs :=
  mkObs res (map nN wakes) vals
        [bN (fulfilled s); match value s with Some _ => 1%N | None => 0%N end]
        (map rterm (rfs s)) (snapshot s) 0.

Definition woke_by (task lastw : option wid) : bool :=
  match task, lastw with Some w, Some w' => Nat.eqb w w' | _, _ => false end.
Definition wk_list (task : option wid) : list wid := match task with Some w => [w] | None => [] end.

(* wake_waiters: reverse_drain, oldest first *)
Fixpoint wake_all (fs : list rfut) (order : list fid) (acc : list wid) : list rfut * list wid :=
  match order with
  | [] => (fs, acc)
  | f :: r =>
      let x := nth f fs rabsent in
      wake_all (upd f (mkR (r_alive x) (r_hp x) RUnreg None (r_woken x || woke_by (r_task x) (r_lastw x)) (r_lastw x)) fs)
               r (acc ++ wk_list (r_task x))
  end.

Definition with_sr (s : state) (hs : bool) (rc pr : nat) : state :=
  mkState (bcast s) (fulfilled s) (value s) (waiters s) (rfs s) hs rc pr (counted s) (sent s) (explicit s) (gone s).
Definition with_rfs (s : state) (q : list fid) (fs : list rfut) : state :=
  mkState (bcast s) (fulfilled s) (value s) q fs (has_sender s) (receivers s) (pend_rclose s)
          (counted s) (sent s) (explicit s) (gone s).

Definition do_close (s : state) (expl : bool) : state * bool * list wid :=
  if fulfilled s then (s, false, [])
  else
    let '(fs', wk) := wake_all (rfs s) (rev (waiters s)) [] in
    (mkState (bcast s) true (value s) [] fs' (has_sender s) (receivers s) (pend_rclose s)
             (counted s) (sent s) (explicit s || expl) (gone s), true, wk).

Definition step (s : state) (o : op) : state * obs :=
  match o with
  | Send v =>
      if fulfilled s then (s, mk_obs s [R_ERR; v] [] [V_BACK; v])
      else
        let '(fs', wk) := wake_all (rfs s) (rev (waiters s)) [] in
        let s' := mkState (bcast s) true (Some v) [] fs' (has_sender s) (receivers s) (pend_rclose s)
                          (counted s) true (explicit s) (gone s) in
        (s', mk_obs s' [R_OK] wk [])
  | Close =>
      let '(s', newly, wk) := do_close s true in (s', mk_obs s' [Rbool newly] wk [])
  | CreateRecv f =>
      let s' := with_rfs s (waiters s) (upd f (mkR true true RUnreg None false None) (rfs s)) in
      (s', mk_obs s' [R_UNIT] [] [])
  | PollRecv f w =>
      let x := getr s f in
      if negb (r_hp x) then (s, mk_obs s [R_PANIC] [] [])
      else match r_st x with
      | RUnreg =>
          match value s with
          | Some v =>
              let fs' := upd f (mkR true false RUnreg (r_task x) false (Some w)) (rfs s) in
              let s' := mkState (bcast s) (fulfilled s) (if bcast s then Some v else None) (waiters s) fs'
                                (has_sender s) (receivers s) (pend_rclose s) (counted s) (sent s) (explicit s) (gone s) in
              (s', mk_obs s' [R_SOME; v] [] [V_DELIVERED; v])
          | None =>
              if fulfilled s then
                let s' := with_rfs s (waiters s) (upd f (mkR true false RUnreg (r_task x) false (Some w)) (rfs s)) in
                (s', mk_obs s' [R_NONE] [] [])
              else if memb f (waiters s) then (s, mk_obs s [R_UB] [] [])
              else
                let s' := with_rfs s (f :: waiters s) (upd f (mkR true true RReg (Some w) false (Some w)) (rfs s)) in
                (s', mk_obs s' [R_PENDING] [] [])
          end
      | RReg =>
          let s' := with_rfs s (waiters s) (upd f (mkR true true RReg (Some w) false (Some w)) (rfs s)) in
          (s', mk_obs s' [R_PENDING] [] [])
      | RNotified => (s, mk_obs s [R_PANIC] [] [])          (* unreachable!("Not possible for Oneshot") *)
      end
  | DropRecv f =>
      let x := getr s f in
      if r_hp x then
        match r_st x with
        | RReg =>
            if memb f (waiters s) then
              let s' := with_rfs s (remove f (waiters s)) (upd f rabsent (rfs s)) in (s', mk_obs s' [R_UNIT] [] [])
            else (s, mk_obs s [R_PANIC] [] [])
        | _ => let s' := with_rfs s (waiters s) (upd f rabsent (rfs s)) in (s', mk_obs s' [R_UNIT] [] [])
        end
      else let s' := with_rfs s (waiters s) (upd f rabsent (rfs s)) in (s', mk_obs s' [R_UNIT] [] [])
  | DropSender =>
      (* the sender handle cannot be cloned: its drop closes *)
      let '(s', newly, wk) := do_close (with_sr s false (receivers s) (pend_rclose s)) false in
      (s', mk_obs s' [Rbool newly] wk [])
  | CloneReceiver =>
      let s' := with_sr s (has_sender s) (S (receivers s)) (pend_rclose s) in (s', mk_obs s' [R_UNIT] [] [])
  | DropReceiverDec =>
      let last := negb (counted s) || Nat.eqb (receivers s) 1 in
      let s' := with_sr s (has_sender s) (pred (receivers s)) (if last then S (pend_rclose s) else pend_rclose s) in
      (s', mk_obs s' [Rbool last] [] [])
  | DropReceiverClose =>
      let '(s', newly, wk) := do_close (with_sr s (has_sender s) (receivers s) (pred (pend_rclose s))) false in
      (s', mk_obs s' [Rbool newly] wk [])
  | Teardown =>
      let s' := mkState (bcast s) (fulfilled s) None [] (map (fun _ => rabsent) (rfs s)) false 0 0
                        (counted s) (sent s) (explicit s) true in
      (s', mkObs [R_UNIT] [] (match value s with Some v => [V_DROPPED; v] | None => [] end) [] [] [] 0)
  end.

Inductive Reach (k : nat) (b cnt : bool) : state -> Prop :=
| reach_init : Reach k b cnt (init k b cnt)
| reach_step s o : Reach k b cnt s -> legal s o = true -> Reach k b cnt (fst (step s o)).

(* ---------------------------------------------------------------------- *)
Definition decode (l : list N) : option op :=
  match l with
  | [0; v] => Some (Send v)
  | [1] => Some Close
  | [2; f] => Some (CreateRecv (N.to_nat f))
  | [3; f; w] => Some (PollRecv (N.to_nat f) (N.to_nat w))
  | [4; f] => Some (DropRecv (N.to_nat f))
  | [5] => Some DropSender
  | [6] => Some CloneReceiver
  | [7] => Some DropReceiverDec
  | [8] => Some DropReceiverClose
  | [20] => Some Teardown
  | _ => None
  end%N.

Definition encode (o : op) : list N :=
  match o with
  | Send v => [0; v]
  | Close => [1]
  | CreateRecv f => [2; nN f]
  | PollRecv f w => [3; nN f; nN w]
  | DropRecv f => [4; nN f]
  | DropSender => [5]
  | CloneReceiver => [6]
  | DropReceiverDec => [7]
  | DropReceiverClose => [8]
  | Teardown => [20]
  end%N.

Definition bad_obs : obs := mkObs [R_BADOP] [] [] [] [] [] 0.

Definition step_c (s : state) (o : op) : state * obs :=
  if callable s o then step s o else (s, bad_obs).

Definition seq_obs (a b : obs) : obs :=
  mkObs (o_res a ++ o_res b) (o_wake a ++ o_wake b) (o_val a ++ o_val b)
        (o_probe b) (o_term b) (o_queue b) (o_alloc a + o_alloc b).

(* code 9 = drop(receiver) as one call *)
(* the caller cannot see whether it held the last handle, only whether the channel got closed *)
Definition with_res (r : list N) (o : obs) : obs :=
  mkObs r (o_wake o) (o_val o) (o_probe o) (o_term o) (o_queue o) (o_alloc o).

Definition drop_receiver (s : state) : state * obs :=
  let '(s1, o1) := step_c s DropReceiverDec in
  if Nat.ltb 0 (pend_rclose s1) then
    let '(s2, o2) := step_c s1 DropReceiverClose in (s2, with_res (o_res o2) (seq_obs o1 o2))
  else (s1, with_res [R_FALSE] o1).

Definition mstep (s : state) (l : list N) : state * obs :=
  match l with
  | [9%N] => if negb (gone s) && Nat.ltb 0 (receivers s) then drop_receiver s else (s, bad_obs)
  | _ => match decode l with
         | Some o => step_c s o
         | None => (s, bad_obs)
         end
  end.

(* cfg = [slots; broadcast; counted; shared; max receiver handles] *)
Record xstate := mkX { xs : state; x_shared : bool; x_maxh : nat; x_sent : nat }.

Definition minit (cfg : list N) : xstate :=
  match cfg with
  | [k; b; cnt; sh; mh] =>
      mkX (init (N.to_nat k) (negb (N.eqb b 0)) (negb (N.eqb cnt 0))) (negb (N.eqb sh 0)) (N.to_nat mh) 0
  | _ => mkX (init 0 false true) false 0 0
  end.

Definition xstep (x : xstate) (l : list N) : xstate * obs :=
  let '(s', ob) := mstep (xs x) l in
  (mkX s' (x_shared x) (x_maxh x) (match l with [0%N; _] => S (x_sent x) | _ => x_sent x end), ob).

Definition enabled (x : xstate) : list (list N) :=
  let s := xs x in
  if gone s then [] else
  (if has_sender s && Nat.ltb (x_sent x) 2 then [encode (Send (N.of_nat (S (x_sent x))))] else [])
  ++ (if x_shared x then [] else [encode Close])
  ++ flat_map (fun f =>
       let y := getr s f in
       if r_alive y then
         (if r_hp y then [encode (PollRecv f (2 * f)); encode (PollRecv f (2 * f + 1))] else []) ++ [encode (DropRecv f)]
       else if Nat.ltb 0 (receivers s) then [encode (CreateRecv f)] else []) (seq 0 (length (rfs s)))
  ++ (if x_shared x then
        (if has_sender s then [encode DropSender] else [])
        ++ (if bcast s && Nat.ltb 0 (receivers s) && Nat.ltb (receivers s) (x_maxh x) then [encode CloneReceiver] else [])
        ++ (if Nat.ltb 0 (receivers s) then [[9%N]] else [])
      else [])
  ++ [encode Teardown].
