(* The specification side of C16: which bounds soundness REQUIRES of every Send / Sync
   instance of the crate's public types, and which instances the crate PROMISES.
   Hand-written; it is the definition of "sound" used by the theorems, and part of the
   trusted base.  Parameter positions: 0 = MutexType, 1 = T (payload), 2 = A (buffer)
   unless noted. *)
From Coq Require Import List String Bool Arith.
From FI Require Import AutoTraits.
Import ListNotations.
Open Scope string_scope.

Record rule := mkRule { r_name : string; r_trait : trait; r_never : bool; r_bounds : list (nat * trait) }.

Definition M_send := (0, Send). Definition M_sync := (0, Sync).
Definition T_send := (1, Send). Definition T_sync := (1, Sync). Definition A_send := (2, Send).

(* [required]: if the instance holds then these bounds hold (r_never: it must never hold) *)
Definition required : list rule := [
  (* mutex: the lock gives exclusive access to T from any thread; a guard exposes &mut T / &T;
     a lock future yields a guard *)
  mkRule "sync::mutex::GenericMutex" Send false [M_send; T_send];
  mkRule "sync::mutex::GenericMutex" Sync false [M_sync; T_send];
  mkRule "sync::mutex::GenericMutexGuard" Send false [M_sync; T_send];
  mkRule "sync::mutex::GenericMutexGuard" Sync false [T_sync];
  mkRule "sync::mutex::GenericMutexLockFuture" Send false [M_sync; T_send];
  mkRule "sync::mutex::GenericMutexLockFuture" Sync false [M_sync; T_send];
  (* event, semaphore, timer: no payload; futures / releasers touch the primitive through & *)
  mkRule "sync::manual_reset_event::GenericManualResetEvent" Send false [M_send];
  mkRule "sync::manual_reset_event::GenericManualResetEvent" Sync false [M_sync];
  mkRule "sync::manual_reset_event::GenericWaitForEventFuture" Send false [M_sync];
  mkRule "sync::manual_reset_event::GenericWaitForEventFuture" Sync false [M_sync];
  mkRule "sync::semaphore::GenericSemaphore" Send false [M_send];
  mkRule "sync::semaphore::GenericSemaphore" Sync false [M_sync];
  mkRule "sync::semaphore::GenericSemaphoreReleaser" Send false [M_sync];
  mkRule "sync::semaphore::GenericSemaphoreReleaser" Sync false [M_sync];
  mkRule "sync::semaphore::GenericSemaphoreAcquireFuture" Send false [M_sync];
  mkRule "sync::semaphore::GenericSemaphoreAcquireFuture" Sync false [M_sync];
  mkRule "sync::semaphore::if_alloc::GenericSharedSemaphore" Send false [M_sync];
  mkRule "sync::semaphore::if_alloc::GenericSharedSemaphore" Sync false [M_sync];
  mkRule "sync::semaphore::if_alloc::GenericSharedSemaphoreReleaser" Send false [M_sync];
  mkRule "sync::semaphore::if_alloc::GenericSharedSemaphoreReleaser" Sync false [M_sync];
  mkRule "sync::semaphore::if_alloc::GenericSharedSemaphoreAcquireFuture" Send false [M_sync];
  mkRule "sync::semaphore::if_alloc::GenericSharedSemaphoreAcquireFuture" Sync false [M_sync];
  mkRule "timer::timer::GenericTimerService" Send false [M_send];
  mkRule "timer::timer::GenericTimerService" Sync false [M_sync];
  (* the local timer future refers to its service through a plain `&dyn TimerAccess` *)
  mkRule "timer::timer::LocalTimerFuture" Send true [];
  mkRule "timer::timer::LocalTimerFuture" Sync true [];
  (* channels: values of T (and the buffer A that stores them) are handed between threads *)
  mkRule "channel::mpmc::GenericChannel" Send false [M_send; T_send; A_send];
  mkRule "channel::mpmc::GenericChannel" Sync false [M_sync; T_send; A_send];
  mkRule "channel::mpmc::ChannelStream" Send false [M_sync; T_send; A_send];
  mkRule "channel::mpmc::if_alloc::shared::GenericSender" Send false [M_sync; T_send; A_send];
  mkRule "channel::mpmc::if_alloc::shared::GenericSender" Sync false [M_sync; T_send; A_send];
  mkRule "channel::mpmc::if_alloc::shared::GenericReceiver" Send false [M_sync; T_send; A_send];
  mkRule "channel::mpmc::if_alloc::shared::GenericReceiver" Sync false [M_sync; T_send; A_send];
  mkRule "channel::mpmc::if_alloc::shared::SharedStream" Send false [M_sync; T_send; A_send];
  mkRule "channel::channel_future::ChannelReceiveFuture" Send false [M_sync; T_send];
  mkRule "channel::channel_future::ChannelSendFuture" Send false [M_sync; T_send];
  mkRule "channel::channel_future::if_alloc::shared::ChannelReceiveFuture" Send false [M_sync; T_send];
  mkRule "channel::channel_future::if_alloc::shared::ChannelSendFuture" Send false [M_sync; T_send];
  mkRule "channel::oneshot::GenericOneshotChannel" Send false [M_send; T_send];
  mkRule "channel::oneshot::GenericOneshotChannel" Sync false [M_sync; T_send];
  mkRule "channel::oneshot::if_alloc::shared::GenericOneshotSender" Send false [M_sync; T_send];
  mkRule "channel::oneshot::if_alloc::shared::GenericOneshotSender" Sync false [M_sync; T_send];
  mkRule "channel::oneshot::if_alloc::shared::GenericOneshotReceiver" Send false [M_sync; T_send];
  mkRule "channel::oneshot::if_alloc::shared::GenericOneshotReceiver" Sync false [M_sync; T_send];
  mkRule "channel::oneshot_broadcast::GenericOneshotBroadcastChannel" Send false [M_send; T_send];
  mkRule "channel::oneshot_broadcast::GenericOneshotBroadcastChannel" Sync false [M_sync; T_send];
  mkRule "channel::oneshot_broadcast::if_alloc::shared::GenericOneshotBroadcastSender" Send false [M_sync; T_send];
  mkRule "channel::oneshot_broadcast::if_alloc::shared::GenericOneshotBroadcastSender" Sync false [M_sync; T_send];
  mkRule "channel::oneshot_broadcast::if_alloc::shared::GenericOneshotBroadcastReceiver" Send false [M_sync; T_send];
  mkRule "channel::oneshot_broadcast::if_alloc::shared::GenericOneshotBroadcastReceiver" Sync false [M_sync; T_send];
  mkRule "channel::state_broadcast::GenericStateBroadcastChannel" Send false [M_send; T_send];
  mkRule "channel::state_broadcast::GenericStateBroadcastChannel" Sync false [M_sync; T_send];
  mkRule "channel::state_broadcast::StateReceiveFuture" Send false [M_sync; T_send];
  mkRule "channel::state_broadcast::if_alloc::shared::StateReceiveFuture" Send false [M_sync; T_send];
  mkRule "channel::state_broadcast::if_alloc::shared::GenericStateSender" Send false [M_sync; T_send];
  mkRule "channel::state_broadcast::if_alloc::shared::GenericStateSender" Sync false [M_sync; T_send];
  mkRule "channel::state_broadcast::if_alloc::shared::GenericStateReceiver" Send false [M_sync; T_send];
  mkRule "channel::state_broadcast::if_alloc::shared::GenericStateReceiver" Sync false [M_sync; T_send]
].

(* [promised]: under these bounds the instance must hold (what the crate documents for a
   thread-safe lock type and Send payloads) *)
Definition promised : list rule := [
  mkRule "sync::mutex::GenericMutex" Send false [M_send; T_send];
  mkRule "sync::mutex::GenericMutex" Sync false [M_sync; T_send];
  mkRule "sync::mutex::GenericMutexGuard" Sync false [T_sync];
  mkRule "sync::mutex::GenericMutexLockFuture" Send false [M_sync; T_send];
  mkRule "sync::manual_reset_event::GenericManualResetEvent" Send false [M_send];
  mkRule "sync::manual_reset_event::GenericManualResetEvent" Sync false [M_sync];
  mkRule "sync::manual_reset_event::GenericWaitForEventFuture" Send false [M_sync];
  mkRule "sync::semaphore::GenericSemaphore" Send false [M_send];
  mkRule "sync::semaphore::GenericSemaphore" Sync false [M_sync];
  mkRule "sync::semaphore::GenericSemaphoreAcquireFuture" Send false [M_sync];
  mkRule "sync::semaphore::if_alloc::GenericSharedSemaphore" Send false [M_send; M_sync];
  mkRule "sync::semaphore::if_alloc::GenericSharedSemaphore" Sync false [M_sync];
  mkRule "sync::semaphore::if_alloc::GenericSharedSemaphoreAcquireFuture" Send false [M_sync];
  mkRule "timer::timer::GenericTimerService" Send false [M_send];
  mkRule "timer::timer::GenericTimerService" Sync false [M_sync];
  mkRule "timer::timer::TimerFuture" Send false [];
  mkRule "channel::mpmc::GenericChannel" Send false [M_send; T_send; A_send];
  mkRule "channel::mpmc::GenericChannel" Sync false [M_sync; T_send; A_send];
  mkRule "channel::channel_future::ChannelReceiveFuture" Send false [M_sync; T_send];
  mkRule "channel::channel_future::ChannelSendFuture" Send false [M_sync; T_send];
  mkRule "channel::channel_future::if_alloc::shared::ChannelReceiveFuture" Send false [M_sync; T_send];
  mkRule "channel::channel_future::if_alloc::shared::ChannelSendFuture" Send false [M_sync; T_send];
  mkRule "channel::mpmc::if_alloc::shared::GenericSender" Send false [M_send; M_sync; T_send; A_send];
  mkRule "channel::mpmc::if_alloc::shared::GenericReceiver" Send false [M_send; M_sync; T_send; A_send];
  mkRule "channel::oneshot::GenericOneshotChannel" Send false [M_send; T_send];
  mkRule "channel::oneshot::GenericOneshotChannel" Sync false [M_sync; T_send];
  mkRule "channel::oneshot_broadcast::GenericOneshotBroadcastChannel" Send false [M_send; T_send];
  mkRule "channel::oneshot_broadcast::GenericOneshotBroadcastChannel" Sync false [M_sync; T_send];
  mkRule "channel::state_broadcast::GenericStateBroadcastChannel" Send false [M_send; T_send];
  mkRule "channel::state_broadcast::GenericStateBroadcastChannel" Sync false [M_sync; T_send];
  mkRule "channel::state_broadcast::StateReceiveFuture" Send false [M_sync; T_send];
  mkRule "channel::state_broadcast::if_alloc::shared::StateReceiveFuture" Send false [M_sync; T_send]
].

(* [guarded]: traits whose methods hand out a type with an UNCONDITIONAL unsafe Send impl; every
   impl of such a trait must demand the listed bound of the implementing type's parameter
   (`impl Timer for GenericTimerService<M>` needs `M: Sync`, because `TimerFuture: Send`
   holds for every service the future may point to) *)
Definition guarded : list (string * (nat * trait)) := [("Timer", (0, Sync))].

(* [erased]: traits behind which an owner type-erases something it then shares between threads
   on the strength of an unsafe impl that cannot name it: `GenericTimerService<M>` holds
   `&'static dyn Clock` and is Send / Sync for `M: Send / Sync` alone, and every thread that polls
   a timer future or calls check_expirations() reads the clock - sound only because every Clock
   is required to be Sync by the trait's supertrait. *)
Definition erased : list (string * trait) := [("Clock", Sync)].

Definition erased_guarded (dts : list (string * (bool * bool))) : bool :=
  forallb (fun e =>
     match find (fun d => String.eqb (fst d) (fst e)) dts with
     | Some d => match snd e with
                 | Send => fst (snd d)
                 | Sync => snd (snd d)
                 | _ => false
                 end
     | None => false
     end) erased.

(* [erased_links]: a future that refers to its channel through `&dyn ...Access<T>` (borrowed) or
   `Arc<dyn ...Access<T>>` (shared) erases the channel's type.  Its `unsafe impl Send` can only
   name the future's own parameters (MutexType, T); it is sound only if it implies that the
   implementor behind the reference may be reached from the other thread: implementor `Sync`
   (for `Arc<dyn ..>` the last drop may also happen there, which would need implementor `Send`,
   i.e. `MutexType: Send`; like the [required] table this rule does not demand more than the
   property states - see DESIGN 4, observations).  [l_map] gives, per parameter of the implementor, the parameter
   of the owner that it is equal to (None: the owner does not know it - the buffer type A). *)
Record elink := mkL { l_owner : string; l_otrait : trait; l_impl : string; l_needs : list trait;
                      l_map : list (option nat) }.

Definition erased_links : list elink := [
  mkL "channel::channel_future::ChannelSendFuture" Send "channel::mpmc::GenericChannel" [Sync] [Some 0; Some 1; None];
  mkL "channel::channel_future::ChannelReceiveFuture" Send "channel::mpmc::GenericChannel" [Sync] [Some 0; Some 1; None];
  mkL "channel::channel_future::ChannelReceiveFuture" Send "channel::oneshot::GenericOneshotChannel" [Sync] [Some 0; Some 1];
  mkL "channel::channel_future::ChannelReceiveFuture" Send "channel::oneshot_broadcast::GenericOneshotBroadcastChannel" [Sync] [Some 0; Some 1];
  mkL "channel::state_broadcast::StateReceiveFuture" Send "channel::state_broadcast::GenericStateBroadcastChannel" [Sync] [Some 0; Some 1];
  mkL "channel::channel_future::if_alloc::shared::ChannelSendFuture" Send
      "channel::mpmc::if_alloc::shared::GenericChannelSharedState" [Sync] [Some 0; Some 1; None];
  mkL "channel::channel_future::if_alloc::shared::ChannelReceiveFuture" Send
      "channel::mpmc::if_alloc::shared::GenericChannelSharedState" [Sync] [Some 0; Some 1; None];
  mkL "channel::channel_future::if_alloc::shared::ChannelReceiveFuture" Send
      "channel::oneshot::if_alloc::shared::GenericOneshotChannelSharedState" [Sync] [Some 0; Some 1];
  mkL "channel::channel_future::if_alloc::shared::ChannelReceiveFuture" Send
      "channel::oneshot_broadcast::if_alloc::shared::GenericOneshotChannelSharedState" [Sync] [Some 0; Some 1];
  mkL "channel::state_broadcast::if_alloc::shared::StateReceiveFuture" Send
      "channel::state_broadcast::if_alloc::shared::GenericStateBroadcastChannelSharedState" [Sync] [Some 0; Some 1]
].

(* KNOWN FINDING D5 (known_findings.json): the mpmc futures erase the buffer type A, so they are
   Send for `MutexType: Sync, T: Send` although the channel they point to is Sync only for
   `A: Send`.  The links with an unknown implementor parameter form that class. *)
Definition known_gap (l : elink) : bool := existsb (fun m => match m with None => true | Some _ => false end) (l_map l).

Definition producers_guarded (tis : list timpl) : bool :=
  forallb (fun g =>
     (* the trait is implemented at all, and every impl carries the bound *)
     existsb (fun ti => String.eqb (t_trait ti) (fst g)) tis &&
     forallb (fun ti => negb (String.eqb (t_trait ti) (fst g)) ||
                        existsb (fun b => Nat.eqb (fst b) (fst (snd g)) && trait_eqb (snd b) (snd (snd g))) (t_bounds ti)) tis)
    guarded.

Section Check.
  Variable structs : list sdef.
  Variable impls : list idef.

  Definition nparams (n : string) : option nat :=
    match find_struct structs n with Some sd => Some (s_nparams sd) | None => None end.

  Definition bounds_hold (bs : list (nat * trait)) (a : list bits) : bool :=
    forallb (fun p => bget (snd p) (nth (fst p) a (mkB false false false))) bs.

  (* one rule, all assignments; a rule about a type that no longer exists fails *)
  Definition sound_rule (r : rule) : bool :=
    match nparams (r_name r) with
    | None => false
    | Some n =>
        forallb (fun a => implb (holds structs impls (r_trait r) (r_name r) a)
                                (negb (r_never r) && bounds_hold (r_bounds r) a)) (assignments n)
    end.

  Definition complete_rule (r : rule) : bool :=
    match nparams (r_name r) with
    | None => false
    | Some n =>
        forallb (fun a => implb (bounds_hold (r_bounds r) a)
                                (holds structs impls (r_trait r) (r_name r) a)) (assignments n)
    end.

  (* the owner's environment induced by an assignment to the implementor's parameters *)
  Definition owner_env (nO : nat) (m : list (option nat)) (envI : list bits) : list bits :=
    map (fun j => match find (fun p => match fst p with Some j' => Nat.eqb j j' | None => false end) (combine m envI) with
                  | Some p => snd p
                  | None => ball
                  end) (seq 0 nO).

  Definition link_bad (l : elink) : list (list bits) :=
    match nparams (l_owner l), nparams (l_impl l) with
    | Some nO, Some nI =>
        filter (fun envI => holds structs impls (l_otrait l) (l_owner l) (owner_env nO (l_map l) envI) &&
                            negb (forallb (fun tr => holds structs impls tr (l_impl l) envI) (l_needs l)))
               (assignments nI)
    | _, _ => [[]]
    end.

  Definition link_ok (l : elink) : bool := match link_bad l with [] => true | _ => false end.

  Definition future_not_unpin (sd : sdef) : bool :=
    negb (s_future sd) ||
    forallb (fun a => negb (holds structs impls Unpin (s_name sd) a)) (assignments (s_nparams sd)).

  (* every public type with an explicit Send/Sync impl or embedding a wait node is covered *)
  Definition covered (i : idef) : bool :=
    existsb (fun r => String.eqb (r_name r) (i_target i) && trait_eqb (r_trait r) (i_trait i)) required
    || String.eqb (i_target i) "timer::timer::TimerFuture".

  (* diagnostics: the falsifying (type, trait, assignment) triples *)
  Definition unsound : list (string * trait * list bits) :=
    flat_map (fun r =>
      match nparams (r_name r) with
      | None => [(r_name r, r_trait r, [])]
      | Some n =>
          flat_map (fun a => if implb (holds structs impls (r_trait r) (r_name r) a)
                                      (negb (r_never r) && bounds_hold (r_bounds r) a)
                             then [] else [(r_name r, r_trait r, a)]) (assignments n)
      end) required.

  Definition incomplete : list (string * trait * list bits) :=
    flat_map (fun r =>
      match nparams (r_name r) with
      | None => [(r_name r, r_trait r, [])]
      | Some n =>
          flat_map (fun a => if implb (bounds_hold (r_bounds r) a)
                                      (holds structs impls (r_trait r) (r_name r) a)
                             then [] else [(r_name r, r_trait r, a)]) (assignments n)
      end) promised.

  (* compact rendering for the check script: first falsifying assignment per (type, trait) *)
  Definition bit (b : bool) : string := if b then "1" else "0".
  Definition code (a : list bits) : string :=
    fold_right (fun b acc => bit (b_send b) ++ bit (b_sync b) ++ bit (b_unpin b) ++ acc) "" a.
  Definition tname (t : trait) : string := match t with Send => "Send" | Sync => "Sync" | Unpin => "Unpin" end.
  Fixpoint first_per (seen : list string) (l : list (string * trait * list bits)) : list string :=
    match l with
    | [] => []
    | (n, t, a) :: r =>
        let k := n ++ " " ++ tname t in
        if existsb (String.eqb k) seen then first_per seen r
        else (k ++ " " ++ (match a with [] => "-" | _ => code a end)) :: first_per (k :: seen) r
    end.
  Definition unsound_summary := first_per [] unsound.
  Definition incomplete_summary := first_per [] incomplete.

  Definition unpinned_futures : list string :=
    flat_map (fun sd => if future_not_unpin sd then [] else [s_name sd]) structs.

  (* diagnostics for the erased links: "owner impl K|U code" (K = in the known class) *)
  Definition erased_summary : list string :=
    flat_map (fun l => match link_bad l with
                       | [] => []
                       | a :: _ => [l_owner l ++ " " ++ l_impl l ++ " " ++ (if known_gap l then "K" else "U") ++ " " ++
                                    (match a with [] => "-" | _ => code a end)]
                       end) erased_links.
End Check.

(* lifting lemmas: from the boolean case analysis to the quantified statements, generic in the
   generated data (so that no proof step ever unfolds the tables) *)
Section Lift.
  Variable structs : list sdef.
  Variable impls : list idef.

  Lemma futures_lift :
    forallb (future_not_unpin structs impls) structs = true ->
    forall sd, In sd structs -> s_future sd = true ->
    forall a, In a (assignments (s_nparams sd)) -> holds structs impls Unpin (s_name sd) a = false.
  Proof.
    intros H sd Hin Hf a Ha. rewrite forallb_forall in H. specialize (H sd Hin).
    unfold future_not_unpin in H. rewrite Hf in H. cbn [negb orb] in H.
    rewrite forallb_forall in H. specialize (H a Ha).
    destruct (holds structs impls Unpin (s_name sd) a); [discriminate|reflexivity].
  Qed.

  Lemma sound_lift :
    forallb (sound_rule structs impls) required = true ->
    forall r, In r required ->
    forall n, nparams structs (r_name r) = Some n ->
    forall a, In a (assignments n) ->
    holds structs impls (r_trait r) (r_name r) a = true ->
    r_never r = false /\ bounds_hold (r_bounds r) a = true.
  Proof.
    intros H r Hin n Hn a Ha Hh. rewrite forallb_forall in H. specialize (H r Hin).
    unfold sound_rule in H. rewrite Hn in H. rewrite forallb_forall in H. specialize (H a Ha).
    rewrite Hh in H. cbn [implb] in H. apply andb_true_iff in H. destruct H as [H1 H2].
    split; [|exact H2]. destruct (r_never r); [discriminate|reflexivity].
  Qed.

  Lemma complete_lift :
    forallb (complete_rule structs impls) promised = true ->
    forall r, In r promised ->
    forall n, nparams structs (r_name r) = Some n ->
    forall a, In a (assignments n) ->
    bounds_hold (r_bounds r) a = true ->
    holds structs impls (r_trait r) (r_name r) a = true.
  Proof.
    intros H r Hin n Hn a Ha Hb. rewrite forallb_forall in H. specialize (H r Hin).
    unfold complete_rule in H. rewrite Hn in H. rewrite forallb_forall in H. specialize (H a Ha).
    rewrite Hb in H. cbn [implb] in H. exact H.
  Qed.
End Lift.
