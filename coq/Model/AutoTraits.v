(* Auto-trait inference (Send / Sync / Unpin) over the type facts generated from the source
   (Gen/TypesGen.v).  A simplification of rustc's rules: structural over fields, explicit
   `unsafe impl`s decide instead of the structure, a leaf table for core / alloc / lock_api
   types.  No lifetimes, no coinduction (the crate has no recursive types).  Validated
   against rustc by tools/c16_probe.py. *)
From Coq Require Import List String Bool Arith.
Import ListNotations.

Inductive trait := Send | Sync | Unpin.

Inductive ty :=
| TParam (i : nat)
| TUser (name : string) (args : list ty)
| TRef (t : ty) | TRefMut (t : ty) | TPtr (t : ty)      (* *const / *mut / NonNull *)
| TWrap (t : ty)                                       (* Option, MaybeUninit, [T; N] *)
| TTuple (l : list ty)
| TUnsafeCell (t : ty) | TPhantom (t : ty)
| TArc (t : ty) | TBoxLike (t : ty)                    (* VecDeque / Vec *)
| TLockMutex (r t : ty)                                (* lock_api::Mutex<R, T> *)
| TPinned                                              (* PhantomPinned *)
| TLeaf (send sync unpin : bool).

Record sdef := mkS { s_name : string; s_nparams : nat; s_fields : list ty; s_pub : bool; s_future : bool }.
Record idef := mkI { i_trait : trait; i_target : string; i_bounds : list (nat * trait) }.
(* impl of a crate-declared trait (e.g. `Timer`) for a type, with the auto-trait bounds it demands *)
Record timpl := mkT { t_trait : string; t_target : string; t_bounds : list (nat * trait) }.

Record bits := mkB { b_send : bool; b_sync : bool; b_unpin : bool }.
Definition ball : bits := mkB true true true.
Definition band (a b : bits) : bits := mkB (b_send a && b_send b) (b_sync a && b_sync b) (b_unpin a && b_unpin b).
Definition bget (tr : trait) (b : bits) : bool :=
  match tr with Send => b_send b | Sync => b_sync b | Unpin => b_unpin b end.
Definition trait_eqb (a b : trait) : bool :=
  match a, b with Send, Send | Sync, Sync | Unpin, Unpin => true | _, _ => false end.

Section Eval.
  Variable structs : list sdef.
  Variable impls : list idef.

  Definition find_struct (n : string) : option sdef := find (fun s => String.eqb (s_name s) n) structs.
  Definition find_impl (tr : trait) (n : string) : option idef :=
    find (fun i => trait_eqb (i_trait i) tr && String.eqb (i_target i) n) impls.

  (* [env] = the bits of the enclosing struct's type parameters *)
  Fixpoint eval (fuel : nat) (env : list bits) (t : ty) : bits :=
    match fuel with
    | O => mkB false false false
    | S k =>
        match t with
        | TParam i => nth i env (mkB false false false)
        | TRef u => let b := eval k env u in mkB (b_sync b) (b_sync b) true
        | TRefMut u => let b := eval k env u in mkB (b_send b) (b_sync b) true
        | TPtr _ => mkB false false true
        | TWrap u => eval k env u
        | TTuple l => fold_right (fun u acc => band (eval k env u) acc) ball l
        | TUnsafeCell u => let b := eval k env u in mkB (b_send b) false (b_unpin b)
        | TPhantom u => eval k env u
        | TArc u => let b := eval k env u in mkB (b_send b && b_sync b) (b_send b && b_sync b) true
        | TBoxLike u => eval k env u     (* Vec / VecDeque own their elements (PhantomData<T>): all three follow T *)
        | TLockMutex r u =>
            let br := eval k env r in let bu := eval k env u in
            mkB (b_send br && b_send bu) (b_sync br && b_send bu) (b_unpin br && b_unpin bu)
        | TPinned => mkB true true false
        | TLeaf s y u => mkB s y u
        | TUser n args =>
            let env' := map (eval k env) args in
            match find_struct n with
            | None => mkB false false false
            | Some sd =>
                let structural := fold_right (fun u acc => band (eval k env' u) acc) ball (s_fields sd) in
                let decide (tr : trait) :=
                  match find_impl tr n with
                  | Some im => forallb (fun p => bget (snd p) (nth (fst p) env' (mkB false false false))) (i_bounds im)
                  | None => bget tr structural
                  end in
                mkB (decide Send) (decide Sync) (decide Unpin)
            end
        end
    end.

  Definition FUEL : nat := 14.

  (* the bits of [name<params>] when its parameters have the bits [env] *)
  Definition holds (tr : trait) (name : string) (env : list bits) : bool :=
    bget tr (eval FUEL env (TUser name (map TParam (seq 0 (List.length env))))).
End Eval.

(* all assignments of (Send, Sync, Unpin) bits to n parameters *)
(* does `target<env>` implement the crate-declared trait `tr` according to the impls read from the source *)
Definition timpl_holds (tis : list timpl) (tr target : string) (env : list bits) : bool :=
  existsb (fun ti => String.eqb (t_trait ti) tr && String.eqb (t_target ti) target &&
                     forallb (fun p => bget (snd p) (nth (fst p) env (mkB false false false))) (t_bounds ti)) tis.

Definition all_bits : list bits :=
  [mkB true true true; mkB true true false; mkB true false true; mkB true false false;
   mkB false true true; mkB false true false; mkB false false true; mkB false false false].

Fixpoint assignments (n : nat) : list (list bits) :=
  match n with
  | O => [[]]
  | S k => flat_map (fun b => map (cons b) (assignments k)) all_bits
  end.
