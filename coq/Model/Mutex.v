(* Model of src/sync/mutex.rs (MutexState, GenericMutexLockFuture, GenericMutexGuard).
   One [step] = one critical section; the waker returned out of the section by
   unlock()/remove_waiter() is woken right after it (same call). *)
From FI Require Export Base.

Inductive pst := New | Waiting | Notified | Done.

Record fut := mkFut {
  f_alive : bool;
  f_hp : bool;               (* `mutex: Option<&Mutex>` is Some = !is_terminated() *)
  f_st : pst;
  f_task : option wid;
  (* ghost *)
  f_woken : bool;            (* woken, through the waker of its latest poll, since that poll *)
  f_lastw : option wid       (* waker of the latest poll *)
}.

Definition absent : fut := mkFut false false New None false None.
Definition fresh : fut := mkFut true true New None false None.

Record state := mkState {
  fair : bool;
  locked : bool;
  waiters : list fid;        (* head = newest *)
  futs : list fut;
  guards : nat               (* live GenericMutexGuard objects (held by the client) *)
}.

Inductive op :=
| Create (f : fid) | Poll (f : fid) (w : wid) | DropFut (f : fid)
| TryLock | DropGuard | IsLocked.

Definition get (s : state) (f : fid) : fut := nth f (futs s) absent.

Definition init (k : nat) (is_fair : bool) : state := mkState is_fair false [] (repeat absent k) 0.

Definition legal (s : state) (o : op) : bool :=
  match o with
  | Create f => Nat.ltb f (length (futs s)) && negb (f_alive (get s f))
  | Poll f _ => f_alive (get s f) && f_hp (get s f)
  | DropFut f => f_alive (get s f)
  | DropGuard => Nat.ltb 0 (guards s)
  | _ => true
  end.

Definition callable (s : state) (o : op) : bool :=
  match o with
  | Poll f _ => f_alive (get s f)
  | _ => legal s o
  end.

Definition st_code (p : pst) : N := match p with New => 0 | Waiting => 1 | Notified => 2 | Done => 3 end%N.
Definition term_of (x : fut) : N := if f_alive x then (if f_hp x then 0 else 1)%N else 2%N.

Definition snapshot (s : state) : list N :=
  flat_map (fun f => [nN f; st_code (f_st (get s f)); optN (f_task (get s f))]) (waiters s).

Definition mk_obs (s : state) (res : list N) (wakes : list wid) : obs :=
  mkObs res (map nN wakes) [] [bN (locked s); nN (guards s)] (map term_of (futs s)) (snapshot s) 0.

(* MutexState::return_last_waiter: notify the oldest waiter, hand its waker out.
   Fair: the waiter stays queued (peek_last_mut); unfair: it is unlinked (remove_last). *)
Definition return_last_waiter (is_fair : bool) (ws : list fid) (fs : list fut)
  : list fid * list fut * list wid :=
  match olast ws with
  | None => (ws, fs, [])
  | Some f =>
      let x := nth f fs absent in
      let wk := match f_task x with Some w => [w] | None => [] end in
      let woke := match f_task x, f_lastw x with
                  | Some w, Some w' => Nat.eqb w w'
                  | _, _ => false end in
      let x' := mkFut (f_alive x) (f_hp x) Notified None (f_woken x || woke) (f_lastw x) in
      (if is_fair then ws else removelast ws, upd f x' fs, wk)
  end.

(* MutexState::try_lock_sync *)
Definition can_lock_sync (s : state) : bool :=
  negb (locked s) && (negb (fair s) || match waiters s with [] => true | _ => false end).

Definition step (s : state) (o : op) : state * obs :=
  match o with
  | Create f =>
      let s' := mkState (fair s) (locked s) (waiters s) (upd f fresh (futs s)) (guards s) in
      (s', mk_obs s' [R_UNIT] [])
  | Poll f w =>
      let x := get s f in
      if negb (f_hp x) then (s, mk_obs s [R_PANIC] [])      (* expect("polled ... after completion") *)
      else match f_st x with
      | New =>
          if can_lock_sync s then
            let s' := mkState (fair s) true (waiters s)
                        (upd f (mkFut true false Done (f_task x) false (Some w)) (futs s)) (S (guards s)) in
            (s', mk_obs s' [R_READY] [])
          else if memb f (waiters s) then (s, mk_obs s [R_UB] [])
          else
            let s' := mkState (fair s) (locked s) (f :: waiters s)
                        (upd f (mkFut true true Waiting (Some w) false (Some w)) (futs s)) (guards s) in
            (s', mk_obs s' [R_PENDING] [])
      | Waiting =>
          if negb (fair s) && negb (locked s) then
            if memb f (waiters s) then
              let s' := mkState (fair s) true (remove f (waiters s))
                          (upd f (mkFut true false Done (f_task x) false (Some w)) (futs s)) (S (guards s)) in
              (s', mk_obs s' [R_READY] [])
            else (s, mk_obs s [R_PANIC] [])                (* force_remove_waiter failed *)
          else
            let s' := mkState (fair s) (locked s) (waiters s)
                        (upd f (mkFut true true Waiting (Some w) false (Some w)) (futs s)) (guards s) in
            (s', mk_obs s' [R_PENDING] [])
      | Notified =>
          if negb (locked s) then
            if fair s && negb (memb f (waiters s)) then (s, mk_obs s [R_PANIC] [])
            else
              let ws := if fair s then remove f (waiters s) else waiters s in
              let s' := mkState (fair s) true ws
                          (upd f (mkFut true false Done (f_task x) false (Some w)) (futs s)) (S (guards s)) in
              (s', mk_obs s' [R_READY] [])
          else if fair s then (s, mk_obs s [R_PANIC] [])     (* debug_assert!(!self.is_fair) *)
          else if memb f (waiters s) then (s, mk_obs s [R_UB] [])
          else
            let s' := mkState (fair s) (locked s) (f :: waiters s)
                        (upd f (mkFut true true Waiting (Some w) false (Some w)) (futs s)) (guards s) in
            (s', mk_obs s' [R_PENDING] [])
      | Done => (s, mk_obs s [R_PANIC] [])                   (* "polled Mutex after completion" *)
      end
  | DropFut f =>
      let x := get s f in
      if f_hp x then
        match f_st x with
        | Notified =>
            if fair s && negb (memb f (waiters s)) then (s, mk_obs s [R_PANIC] [])
            else
              let ws := if fair s then remove f (waiters s) else waiters s in
              let '(ws', fs', wk) := return_last_waiter (fair s) ws (upd f absent (futs s)) in
              let s' := mkState (fair s) (locked s) ws' fs' (guards s) in
              (s', mk_obs s' [R_UNIT] wk)
        | Waiting =>
            if memb f (waiters s) then
              let s' := mkState (fair s) (locked s) (remove f (waiters s)) (upd f absent (futs s)) (guards s) in
              (s', mk_obs s' [R_UNIT] [])
            else (s, mk_obs s [R_PANIC] [])
        | _ =>
            let s' := mkState (fair s) (locked s) (waiters s) (upd f absent (futs s)) (guards s) in
            (s', mk_obs s' [R_UNIT] [])
        end
      else
        let s' := mkState (fair s) (locked s) (waiters s) (upd f absent (futs s)) (guards s) in
        (s', mk_obs s' [R_UNIT] [])
  | TryLock =>
      if can_lock_sync s then
        let s' := mkState (fair s) true (waiters s) (futs s) (S (guards s)) in (s', mk_obs s' [R_SOME] [])
      else (s, mk_obs s [R_NONE] [])
  | DropGuard =>
      (* GenericMutexGuard::drop -> unlock() *)
      if locked s then
        let '(ws', fs', wk) := return_last_waiter (fair s) (waiters s) (futs s) in
        let s' := mkState (fair s) false ws' fs' (pred (guards s)) in
        (s', mk_obs s' [R_UNIT] wk)
      else
        let s' := mkState (fair s) (locked s) (waiters s) (futs s) (pred (guards s)) in
        (s', mk_obs s' [R_UNIT] [])
  | IsLocked => (s, mk_obs s [Rbool (locked s)] [])
  end.

Inductive Reach (k : nat) (b : bool) : state -> Prop :=
| reach_init : Reach k b (init k b)
| reach_step s o : Reach k b s -> legal s o = true -> Reach k b (fst (step s o)).

(* ---------------------------------------------------------------------- *)
Definition decode (l : list N) : option op :=
  match l with
  | [0; f] => Some (Create (N.to_nat f))
  | [1; f; w] => Some (Poll (N.to_nat f) (N.to_nat w))
  | [2; f] => Some (DropFut (N.to_nat f))
  | [3] => Some TryLock
  | [4] => Some DropGuard
  | [5] => Some IsLocked
  | _ => None
  end%N.

Definition encode (o : op) : list N :=
  match o with
  | Create f => [0; nN f]
  | Poll f w => [1; nN f; nN w]
  | DropFut f => [2; nN f]
  | TryLock => [3]
  | DropGuard => [4]
  | IsLocked => [5]
  end%N.

Definition bad_obs : obs := mkObs [R_BADOP] [] [] [] [] [] 0.

Definition mstep (s : state) (l : list N) : state * obs :=
  match decode l with
  | Some o => if callable s o then step s o else (s, bad_obs)
  | None => (s, bad_obs)
  end.

Definition minit (cfg : list N) : state :=
  match cfg with
  | [k; b] => init (N.to_nat k) (negb (N.eqb b 0))
  | _ => init 0 false
  end.

Definition enabled (s : state) : list (list N) :=
  map encode
    (flat_map (fun f =>
       let x := get s f in
       if f_alive x then
         (if f_hp x then [Poll f (2 * f); Poll f (2 * f + 1)] else []) ++ [DropFut f]
       else [Create f]) (seq 0 (length (futs s)))
     ++ [TryLock; IsLocked] ++ (if Nat.ltb 0 (guards s) then [DropGuard] else [])).

