(* Boolean monitor of C14 over an observed trace (used to search the implementation's own
   traces for a failing input): the statement of Properties/C14.v on explicit trackers. *)
From FI Require Export Event.

Record emon := mkEmon { e_set : bool;
                        e_fut : list (option (bool * N));   (* per slot, once polled: (set seen, latest waker) *)
                        e_good : bool }.

Definition res_is (c : N) (ob : obs) : bool := N.eqb (hd 99%N (o_res ob)) c.
Definition memN (v : N) (l : list N) : bool := existsb (N.eqb v) l.

Definition emon_step (m : emon) (e : op * obs) : emon :=
  let '(o, ob) := e in
  match o with
  | Create f | DropFut f => mkEmon (e_set m) (upd f None (e_fut m)) (e_good m && negb (res_is R_PANIC ob))
  | Poll f w =>
      let seen := match nth f (e_fut m) None with Some (b, _) => b | None => false end in
      let should := e_set m || seen in
      if res_is R_READY ob then mkEmon (e_set m) (upd f None (e_fut m)) (e_good m && should)
      else if res_is R_PENDING ob then
        mkEmon (e_set m) (upd f (Some (seen, nN w)) (e_fut m)) (e_good m && negb should)
      else mkEmon (e_set m) (e_fut m) false
  | SetEv =>
      (* wakes every pending waiter that has not yet seen a set, through its latest waker *)
      let pending := flat_map (fun x => match x with Some (false, w) => [w] | _ => [] end) (e_fut m) in
      let ok := if e_set m then match o_wake ob with [] => true | _ => false end
                else forallb (fun w => memN w (o_wake ob)) pending && forallb (fun w => memN w pending) (o_wake ob)
                     && Nat.eqb (length pending) (length (o_wake ob)) in
      mkEmon true (map (fun x => match x with Some (_, w) => Some (true, w) | None => None end) (e_fut m))
             (e_good m && ok)
  | ResetEv => mkEmon false (e_fut m) (e_good m && match o_wake ob with [] => true | _ => false end)
  | IsSet => mkEmon (e_set m) (e_fut m) (e_good m && res_is (Rbool (e_set m)) ob)
  end.

Definition event_ok (k : nat) (b : bool) (tr : list (op * obs)) : bool :=
  e_good (fold_left (fun m e =>
            let m' := emon_step m e in
            (* is_set() probed after every call *)
            mkEmon (e_set m') (e_fut m') (e_good m' && Bool.eqb (negb (N.eqb (hd 0%N (o_probe (snd e))) 0)) (e_set m')))
          tr (mkEmon b (repeat None k) true)).

Definition dec_trace (tr : list (list N * obs)) : list (op * obs) :=
  flat_map (fun e => match decode (fst e) with Some o => [(o, snd e)] | None => [] end) tr.

Definition monitor (which : N) (cfg : list N) (tr : list (list N * obs)) : bool :=
  match cfg, which with
  | [k; b], 14%N => event_ok (N.to_nat k) (negb (N.eqb b 0)) (dec_trace tr)
  | _, _ => true
  end.

Definition machine : Base.machine := mkMachine state minit mstep enabled (fun s => s) monitor.
