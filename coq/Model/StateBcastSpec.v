(* Vocabulary in which C13 (and the state-broadcast part of C11) are stated. *)
From FI Require Export StateBcast.

Definition run (s : state) (ops : list op) : state :=
  fold_left (fun s o => fst (step s o)) ops s.

Fixpoint legal_run (s : state) (ops : list op) : Prop :=
  match ops with
  | [] => True
  | o :: r => legal s o = true /\ legal_run (fst (step s o)) r
  end.

Fixpoint trace (s : state) (ops : list op) : list (op * obs) :=
  match ops with
  | [] => []
  | o :: r => (o, snd (step s o)) :: trace (fst (step s o)) r
  end.

Definition private_wakers (ops : list op) : Prop :=
  forall f w, In (PollRecv f w) ops -> Nat.div w 2 = f.

Definition res_is (c : N) (ob : obs) : bool := N.eqb (hd 99%N (o_res ob)) c.
Definition memN (v : N) (l : list N) : bool := existsb (N.eqb v) l.

(* ------------------------------------------------------------------------------------ *)
(* C13 as a monitor over the observable trace.
   [b_id]  the current StateId (probe), [b_tag] the value of the latest successful send,
   [b_closed] (probe), [b_req f] the id passed to receive future f,
   [b_pend f] latest waker of f if pending / whether it was woken since. *)
Record bmon := mkBmon { b_id : N; b_tag : option N; b_closed : bool;
                        b_req : list N; b_pend : list (option N * bool); b_good : bool }.

Definition bm_wake (wakes : list N) (x : option N * bool) : option N * bool :=
  match x with
  | (Some w, b) => (Some w, b || memN w wakes)
  | y => y
  end.

(* does the current state satisfy a receiver asking for something newer than [i]? *)
Definition newer (m : bmon) (i : N) : bool :=
  match b_tag m with Some _ => N.ltb i (b_id m) | None => false end.

Definition bmon_step (m : bmon) (e : op * obs) : bmon :=
  let '(o, ob) := e in
  let closed' := negb (N.eqb (nth 0 (o_probe ob) 0%N) 0) in
  let id' := nth 1 (o_probe ob) 0%N in
  let m1 :=
    match o with
    | Send v =>
        if res_is R_OK ob then
          (* published under an id strictly larger than all earlier ones; only while open *)
          mkBmon (b_id m) (Some v) (b_closed m) (b_req m) (b_pend m)
                 (b_good m && N.ltb (b_id m) id' && negb (b_closed m))
        else
          (* rejected: closed or ids exhausted; the caller gets its own value back *)
          mkBmon (b_id m) (b_tag m) (b_closed m) (b_req m) (b_pend m)
                 (b_good m && res_is R_ERR ob && N.eqb (nth 1 (o_res ob) 0%N) v
                  && (b_closed m || N.eqb (b_id m) MAXID))
    | TryReceive i =>
        if res_is R_SOME ob then
          (* only the most recently published state, with its id, and only if newer than asked *)
          mkBmon (b_id m) (b_tag m) (b_closed m) (b_req m) (b_pend m)
                 (b_good m && newer m i && N.eqb (nth 1 (o_res ob) 0%N) (b_id m)
                  && match b_tag m with Some t => N.eqb (nth 2 (o_res ob) 0%N) t | None => false end)
        else mkBmon (b_id m) (b_tag m) (b_closed m) (b_req m) (b_pend m) (b_good m && negb (newer m i))
    | CreateRecv f i => mkBmon (b_id m) (b_tag m) (b_closed m) (upd f i (b_req m)) (upd f (None, false) (b_pend m)) (b_good m)
    | DropRecv f => mkBmon (b_id m) (b_tag m) (b_closed m) (b_req m) (upd f (None, false) (b_pend m)) (b_good m)
    | PollRecv f w =>
        let i := nth f (b_req m) 0%N in
        if res_is R_SOME ob then
          mkBmon (b_id m) (b_tag m) (b_closed m) (b_req m) (upd f (None, false) (b_pend m))
                 (b_good m && newer m i && N.eqb (nth 1 (o_res ob) 0%N) (b_id m)
                  && match b_tag m with Some t => N.eqb (nth 2 (o_res ob) 0%N) t | None => false end)
        else if res_is R_NONE ob then
          (* None only after close, and only if the receiver has already seen the latest state *)
          mkBmon (b_id m) (b_tag m) (b_closed m) (b_req m) (upd f (None, false) (b_pend m))
                 (b_good m && b_closed m && negb (newer m i))
        else if res_is R_PENDING ob then
          mkBmon (b_id m) (b_tag m) (b_closed m) (b_req m) (upd f (Some (nN w), false) (b_pend m))
                 (b_good m && negb (b_closed m) && negb (newer m i))
        else m
    | _ => m
    end in
  let pend := map (bm_wake (o_wake ob)) (b_pend m1) in
  let m2 := mkBmon id' (b_tag m1) closed' (b_req m1) pend (b_good m1) in
  (* a receiver waiting for something newer has been woken by the next send or by close *)
  let waiting_ok :=
    forallb (fun p => match fst p with
                      | (Some _, false) => negb closed' && negb (newer m2 (snd p))
                      | _ => true end) (combine pend (b_req m1)) in
  match o with
  | Teardown => m2
  | _ => mkBmon id' (b_tag m1) closed' (b_req m1) pend (b_good m1 && waiting_ok)
  end.

Definition state_ok (k : nat) (tr : list (op * obs)) : bool :=
  b_good (fold_left bmon_step tr (mkBmon 0 None false (repeat 0%N k) (repeat (None, false) k) true)).

(* C13: the published id (probe) moves only with a successful send - by a strict increase -
   or with the test hook that jumps close to u64::MAX; in particular a REJECTED send (closed
   channel, ids exhausted) leaves it alone, so the stored state is never re-labelled. *)
Definition id_step (acc : N * bool) (e : op * obs) : N * bool :=
  let '(id, ok) := acc in
  let '(o, ob) := e in
  let id' := nth 1 (o_probe ob) 0%N in
  match o with
  | Teardown => (id, ok)
  | SetId _ => (id', ok)
  | Send _ => if res_is R_OK ob then (id', ok && N.ltb id id') else (id', ok && N.eqb id' id)
  | _ => (id', ok && N.eqb id' id)
  end.

Definition ids_stable (tr : list (op * obs)) : bool := snd (fold_left id_step tr (0%N, true)).

(* C11 (state broadcast): no implicit close while a sender and a receiver handle are alive *)
Record hmon := mkHmon { h_senders : nat; h_receivers : nat; h_explicit : bool; h_good : bool }.

Definition hmon_step (m : hmon) (e : list N * obs) : hmon :=
  let '(l, ob) := e in
  let closed' := negb (N.eqb (hd 0%N (o_probe ob)) 0) in
  let m1 :=
    match l with
    | [1%N] => mkHmon (h_senders m) (h_receivers m) true (h_good m)
    | [6%N] => mkHmon (S (h_senders m)) (h_receivers m) (h_explicit m) (h_good m)
    | [9%N] => mkHmon (pred (h_senders m)) (h_receivers m) (h_explicit m) (h_good m)
    | [10%N] => mkHmon (h_senders m) (S (h_receivers m)) (h_explicit m) (h_good m)
    | [13%N] => mkHmon (h_senders m) (pred (h_receivers m)) (h_explicit m) (h_good m)
    | _ => m
    end in
  match l with
  | [20%N] => m1
  | _ => mkHmon (h_senders m1) (h_receivers m1) (h_explicit m1)
                (h_good m1 && (h_explicit m1 ||
                  Bool.eqb closed' (Nat.eqb (h_senders m1) 0 || Nat.eqb (h_receivers m1) 0)))
  end.

Definition handles_ok (tr : list (list N * obs)) : bool :=
  h_good (fold_left hmon_step tr (mkHmon 1 1 false true)).

(* runs of the model on encoded operations with whole-call handle drops (codes 9 / 13; what the
   harness executes): every call respects the contract, the split sections 7, 8, 11, 12 do not
   occur *)
Fixpoint mtrace (s : state) (ls : list (list N)) : list (list N * obs) :=
  match ls with
  | [] => []
  | l :: r => let '(s', ob) := mstep s l in (l, ob) :: mtrace s' r
  end.

Definition mlegal (s : state) (l : list N) : bool :=
  match l with
  | [9%N] => negb (gone s) && Nat.ltb 0 (senders s)
  | [13%N] => negb (gone s) && Nat.ltb 0 (receivers s)
  | [7%N] | [8%N] | [11%N] | [12%N] => false
  | _ => match decode l with Some o => legal s o | None => false end
  end.

Fixpoint mlegal_run (s : state) (ls : list (list N)) : bool :=
  match ls with
  | [] => true
  | l :: r => mlegal s l && mlegal_run (fst (mstep s l)) r
  end.

Definition decode_mon (l : list N) : option op :=
  match l with
  | [9%N] => Some DropSenderClose
  | [13%N] => Some DropReceiverClose
  | _ => decode l
  end.

Definition dec_trace (tr : list (list N * obs)) : list (op * obs) :=
  flat_map (fun e => match decode_mon (fst e) with Some o => [(o, snd e)] | None => [] end) tr.

Definition monitor (which : N) (cfg : list N) (tr : list (list N * obs)) : bool :=
  match cfg with
  | k :: _ =>
      match which with
      | 13%N => state_ok (N.to_nat k) (dec_trace tr) && ids_stable (dec_trace tr)
      (* C11 = handle lifecycle and the close clauses of the protocol monitor *)
      | 11%N => handles_ok tr && state_ok (N.to_nat k) (dec_trace tr)
      | _ => true
      end
  | _ => true
  end.

Definition machine : Base.machine := mkMachine xstate minit xstep enabled (fun x => x) monitor.
