(* Vocabulary in which C15 is stated. *)
From FI Require Export Timer.

Definition run (s : state) (ops : list op) : state :=
  fold_left (fun s o => fst (step s o)) ops s.

Fixpoint legal_run (s : state) (ops : list op) : Prop :=
  match ops with
  | [] => True
  | o :: r => legal s o = true /\ legal_run (fst (step s o)) r
  end.

Fixpoint trace (s : state) (ops : list op) : list (op * obs) :=
  match ops with
  | [] => []
  | o :: r => (o, snd (step s o)) :: trace (fst (step s o)) r
  end.

Definition private_wakers (ops : list op) : Prop :=
  forall f w, In (Poll f w) ops -> Nat.div w 2 = f.

Definition res_is (c : N) (ob : obs) : bool := N.eqb (hd 99%N (o_res ob)) c.

(* ------------------------------------------------------------------------------------ *)
(* C15 as a monitor over the observable trace.  Per timer future:
   [t_dl] its deadline (for delay(d): now + d in milliseconds, saturating at u64::MAX),
   [t_reg] registered (polled, returned Pending, not yet expired / dropped),
   [t_due] a check_expirations() since its registration observed clock >= deadline,
   [t_w]   the waker of its latest poll. *)
Record tfut := mkTfut { t_live : bool; t_dl : N; t_reg : bool; t_due : bool; t_w : N }.
Definition tabsent : tfut := mkTfut false 0 false false 0.
Record tmon := mkTmon { tm_now : N; tm_futs : list tfut; tm_good : bool }.

Definition tget (m : tmon) (f : fid) : tfut := nth f (tm_futs m) tabsent.

Definition minN (l : list N) : option N :=
  match l with
  | [] => None
  | h :: t => Some (fold_left N.min t h)
  end.

Fixpoint sortedN (l : list N) : bool :=
  match l with
  | a :: ((b :: _) as r) => N.leb a b && sortedN r
  | _ => true
  end.

Definition registered (m : tmon) : list fid :=
  filter (fun f => t_live (tget m f) && t_reg (tget m f)) (seq 0 (length (tm_futs m))).

Definition tmon_step (m : tmon) (e : op * obs) : tmon :=
  let '(o, ob) := e in
  let m1 :=
    match o with
    | SetTime t => mkTmon t (tm_futs m) (tm_good m)
    | Deadline f t => mkTmon (tm_now m) (upd f (mkTfut true t false false 0) (tm_futs m)) (tm_good m)
    | Delay f secs nanos =>
        (* delay(d) = deadline(now + d), saturating *)
        mkTmon (tm_now m) (upd f (mkTfut true (deadline_from_now (tm_now m) secs nanos) false false 0) (tm_futs m)) (tm_good m)
    | Poll f w =>
        let x := tget m f in
        (* never early: completes at its first poll iff the clock has reached the deadline,
           later only after a check_expirations() that observed clock >= deadline *)
        let may_complete := if t_reg x then t_due x else N.leb (t_dl x) (tm_now m) in
        if res_is R_READY ob then
          mkTmon (tm_now m) (upd f (mkTfut true (t_dl x) false false 0) (tm_futs m)) (tm_good m && may_complete)
        else if res_is R_PENDING ob then
          mkTmon (tm_now m) (upd f (mkTfut true (t_dl x) true (t_due x) (nN w)) (tm_futs m))
                 (tm_good m && negb may_complete)
        else m
    | DropFut f => mkTmon (tm_now m) (upd f tabsent (tm_futs m)) (tm_good m)
    | CheckExp =>
        (* wakes all and only the registered, not yet expired futures that are due, through
           their latest wakers, in non-decreasing deadline order *)
        let due := filter (fun f => negb (t_due (tget m f)) && N.leb (t_dl (tget m f)) (tm_now m)) (registered m) in
        let woken := map (fun w => N.to_nat (N.div w 2)) (o_wake ob) in
        let same_set := forallb (fun f => existsb (Nat.eqb f) woken) due
                        && forallb (fun f => existsb (Nat.eqb f) due) woken
                        && Nat.eqb (length woken) (length due) in
        let latest := forallb (fun w => N.eqb w (t_w (tget m (N.to_nat (N.div w 2))))) (o_wake ob) in
        let ordered := sortedN (map (fun f => t_dl (tget m f)) woken) in
        mkTmon (tm_now m)
               (map (fun x => if t_live x && t_reg x && negb (t_due x) && N.leb (t_dl x) (tm_now m)
                              then mkTfut true (t_dl x) true true (t_w x) else x) (tm_futs m))
               (tm_good m && same_set && latest && ordered)
    | NextExp => m
    end in
  (* next_expiration() = the smallest deadline among registered, not yet expired futures *)
  let pending_dl := map (fun f => t_dl (tget m1 f)) (filter (fun f => negb (t_due (tget m1 f))) (registered m1)) in
  let probe_next := match o_probe ob with
                    | _ :: 1%N :: e :: _ => Some e
                    | _ => None end in
  let next_ok := match minN pending_dl, probe_next with
                 | Some a, Some b => N.eqb a b
                 | None, None => true
                 | _, _ => false end in
  let res_ok := match o with
                | NextExp => match minN pending_dl with
                             | Some a => res_is R_SOME ob && N.eqb (nth 1 (o_res ob) 0%N) a
                             | None => res_is R_NONE ob end
                | CheckExp | SetTime _ | Deadline _ _ | Delay _ _ _ | DropFut _ => negb (res_is R_PANIC ob)
                | Poll _ _ => true
                end in
  mkTmon (tm_now m1) (tm_futs m1) (tm_good m1 && next_ok && res_ok).

Definition timer_ok (k : nat) (tr : list (op * obs)) : bool :=
  tm_good (fold_left tmon_step tr (mkTmon 0 (repeat tabsent k) true)).

(* ------------------------------------------------------------------------------------ *)
(* pairing heap, tree level *)
Section HeapSpec.
  Variable key : fid -> N.
  Fixpoint heap_ordered (t : tree) : Prop :=
    match t with
    | T r cs => (fix all (l : list tree) : Prop :=
                   match l with
                   | [] => True
                   | c :: rest => (key r <= key (root_id c))%N /\ heap_ordered c /\ all rest
                   end) cs
    end.
  Definition hordered (h : option tree) : Prop :=
    match h with Some t => heap_ordered t | None => True end.
End HeapSpec.

Definition dec_trace (tr : list (list N * obs)) : list (op * obs) :=
  flat_map (fun e => match decode (fst e) with Some o => [(o, snd e)] | None => [] end) tr.

Definition monitor (which : N) (cfg : list N) (tr : list (list N * obs)) : bool :=
  match cfg with
  | k :: _ =>
      match which with
      | 15%N => timer_ok (N.to_nat k) (dec_trace tr)
      | _ => true
      end
  | _ => true
  end.

Definition machine : Base.machine := mkMachine xstate minit xstep enabled (fun x => x) monitor.
