(* Model of src/sync/semaphore.rs (SemaphoreState, acquire futures, releasers; the
   borrowed and the shared flavour run the same SemaphoreState code).
   One [step] = one critical section. *)
From FI Require Export Base.

Inductive pst := New | Waiting | Notified | Done.

Record fut := mkFut {
  f_alive : bool;
  f_hp : bool;               (* `semaphore: Option<..>` is Some = !is_terminated() *)
  f_st : pst;
  f_task : option wid;
  f_req : N;                 (* required_permits *)
  (* ghost, never observed *)
  f_woken : bool;            (* woken, through the waker of its latest poll, since that poll *)
  f_lastw : option wid;      (* waker of the latest poll *)
  f_stamp : nat              (* start of the current wait: first Pending poll, or (unfair)
                                the poll at which a notified future went back to waiting *)
}.

Definition absent : fut := mkFut false false New None 0 false None 0.
Definition fresh (n : N) : fut := mkFut true true New None n false None 0.

Record state := mkState {
  fair : bool;
  permits : N;
  waiters : list fid;        (* head = newest *)
  futs : list fut;
  rels : list N;             (* releasers held by the client, creation order: amount each returns on drop *)
  fx : bool;                 (* true = the code with the D1a/D1b repairs (wakeup_waiters() after unlinking a
                                Waiting future and after a notified future re-queues); false = the pinned code *)
  clock : nat                (* ghost: stamp generator *)
}.

Inductive op :=
| Create (f : fid) (n : N) | Poll (f : fid) (w : wid) | DropFut (f : fid)
| TryAcquire (n : N) | Release (n : N)
| Disarm (i : nat) | DropReleaser (i : nat).

Definition get (s : state) (f : fid) : fut := nth f (futs s) absent.

Definition init (k : nat) (is_fair : bool) (p : N) (fixed : bool) : state :=
  mkState is_fair p [] (repeat absent k) [] fixed 0.

Definition MAXU : N := 18446744073709551615.   (* usize::MAX on the 64-bit targets checked *)

Definition legal (s : state) (o : op) : bool :=
  match o with
  | Create f n => Nat.ltb f (length (futs s)) && negb (f_alive (get s f)) && N.leb n MAXU
  | Poll f _ => f_alive (get s f) && f_hp (get s f)
  | DropFut f => f_alive (get s f)
  | TryAcquire n => N.leb n MAXU
  | Release n => N.leb (permits s + n) MAXU           (* source: "TODO: Overflow check" *)
  | Disarm i => Nat.ltb i (length (rels s))
  | DropReleaser i => Nat.ltb i (length (rels s)) && N.leb (permits s + nth i (rels s) 0%N) MAXU
  end.

Definition callable (s : state) (o : op) : bool :=
  match o with
  | Poll f _ => f_alive (get s f)
  | _ => legal s o
  end.

Definition st_code (p : pst) : N := match p with New => 0 | Waiting => 1 | Notified => 2 | Done => 3 end%N.
Definition term_of (x : fut) : N := if f_alive x then (if f_hp x then 0 else 1)%N else 2%N.

Definition snapshot (s : state) : list N :=
  flat_map (fun f => [nN f; st_code (f_st (get s f)); optN (f_task (get s f)); f_req (get s f)]) (waiters s).

Definition mk_obs (s : state) (res : list N) (wakes : list wid) : obs :=
  mkObs res (map nN wakes) [] [permits s; nN (length (rels s))] (map term_of (futs s)) (snapshot s) 0.

Definition notify (x : fut) : fut :=
  let woke := match f_task x, f_lastw x with
              | Some w, Some w' => Nat.eqb w w' | _, _ => false end in
  mkFut (f_alive x) (f_hp x) Notified (f_task x) (f_req x) (f_woken x || woke) (f_lastw x) (f_stamp x).

(* SemaphoreState::wakeup_waiters.  [order] = the queue, oldest first.
   Returns the part of the queue that stays (oldest first), the futures, the wakers woken. *)
Fixpoint wakeup (is_fair : bool) (avail : N) (order : list fid) (fs : list fut) (acc : list wid)
  : list fid * list fut * list wid :=
  match order with
  | [] => ([], fs, acc)
  | f :: r =>
      let x := nth f fs absent in
      if N.ltb avail (f_req x) then (order, fs, acc)
      else
        let '(fs', acc') :=
          match f_st x with
          | Notified => (fs, acc)
          | _ => (upd f (notify x) fs,
                  match f_task x with Some w => acc ++ [w] | None => acc end)   (* wake_by_ref *)
          end in
        if is_fair then (order, fs', acc')              (* "we never wake more than 1 task" *)
        else wakeup is_fair (avail - f_req x) r fs' acc'   (* remove_last, continue *)
  end.

Definition wakeup_waiters (is_fair : bool) (p : N) (ws : list fid) (fs : list fut)
  : list fid * list fut * list wid :=
  let '(order', fs', wk) := wakeup is_fair p (rev ws) fs [] in (rev order', fs', wk).

(* SemaphoreState::try_acquire_sync *)
Definition can_acquire_sync (s : state) (n : N) : bool :=
  N.leb n (permits s) &&
  (negb (fair s) || match waiters s with [] => true | _ => false end || N.eqb n 0).

Definition set_fut (x : fut) (hp : bool) (st : pst) (task : option wid) (woken : bool)
                   (lastw : option wid) (stamp : nat) : fut :=
  mkFut true hp st task (f_req x) woken lastw stamp.

(* release(n) with n > 0, overflow excluded by [legal] *)
Definition do_release (s : state) (n : N) (rels' : list N) : state * list wid :=
  if N.eqb n 0 then (mkState (fair s) (permits s) (waiters s) (futs s) rels' (fx s) (clock s), [])
  else
    let p := (permits s + n)%N in
    let '(ws', fs', wk) := wakeup_waiters (fair s) p (waiters s) (futs s) in
    (mkState (fair s) p ws' fs' rels' (fx s) (clock s), wk).

Fixpoint remove_nth {A} (i : nat) (l : list A) : list A :=
  match l, i with
  | [], _ => []
  | _ :: t, O => t
  | h :: t, S i' => h :: remove_nth i' t
  end.

Definition step (s : state) (o : op) : state * obs :=
  match o with
  | Create f n =>
      let s' := mkState (fair s) (permits s) (waiters s) (upd f (fresh n) (futs s)) (rels s) (fx s) (clock s) in
      (s', mk_obs s' [R_UNIT] [])
  | Poll f w =>
      let x := get s f in
      if negb (f_hp x) then (s, mk_obs s [R_PANIC] [])
      else match f_st x with
      | New =>
          if can_acquire_sync s (f_req x) then
            let s' := mkState (fair s) (permits s - f_req x) (waiters s)
                        (upd f (set_fut x false Done (f_task x) false (Some w) (f_stamp x)) (futs s))
                        (rels s ++ [f_req x]) (fx s) (clock s) in
            (s', mk_obs s' [R_READY; f_req x] [])
          else if memb f (waiters s) then (s, mk_obs s [R_UB] [])
          else
            let s' := mkState (fair s) (permits s) (f :: waiters s)
                        (upd f (set_fut x true Waiting (Some w) false (Some w) (S (clock s))) (futs s))
                        (rels s) (fx s) (S (clock s)) in
            (s', mk_obs s' [R_PENDING] [])
      | Waiting =>
          if negb (fair s) && N.leb (f_req x) (permits s) then
            if memb f (waiters s) then
              let s' := mkState (fair s) (permits s - f_req x) (remove f (waiters s))
                          (upd f (set_fut x false Done (f_task x) false (Some w) (f_stamp x)) (futs s))
                          (rels s ++ [f_req x]) (fx s) (clock s) in
              (s', mk_obs s' [R_READY; f_req x] [])
            else (s, mk_obs s [R_PANIC] [])
          else
            let s' := mkState (fair s) (permits s) (waiters s)
                        (upd f (set_fut x true Waiting (Some w) false (Some w) (f_stamp x)) (futs s))
                        (rels s) (fx s) (clock s) in
            (s', mk_obs s' [R_PENDING] [])
      | Notified =>
          if N.leb (f_req x) (permits s) then
            if fair s && negb (memb f (waiters s)) then (s, mk_obs s [R_PANIC] [])
            else
              let ws := if fair s then remove f (waiters s) else waiters s in
              let p := (permits s - f_req x)%N in
              let fs := upd f (set_fut x false Done (f_task x) false (Some w) (f_stamp x)) (futs s) in
              let '(ws', fs', wk) := if fair s then wakeup_waiters true p ws fs else (ws, fs, []) in
              let s' := mkState (fair s) p ws' fs' (rels s ++ [f_req x]) (fx s) (clock s) in
              (s', mk_obs s' [R_READY; f_req x] wk)
          else if fair s then (s, mk_obs s [R_PANIC] [])   (* assert!(!self.is_fair, ...) *)
          else if memb f (waiters s) then (s, mk_obs s [R_UB] [])
          else
            (* back to waiting, as the newest waiter; then wakeup_waiters() *)
            let ws := f :: waiters s in
            let fs := upd f (set_fut x true Waiting (Some w) false (Some w) (S (clock s))) (futs s) in
            let '(ws', fs', wk) := if fx s then wakeup_waiters false (permits s) ws fs else (ws, fs, []) in
            let s' := mkState (fair s) (permits s) ws' fs' (rels s) (fx s) (S (clock s)) in
            (s', mk_obs s' [R_PENDING] wk)
      | Done => (s, mk_obs s [R_PANIC] [])
      end
  | DropFut f =>
      let x := get s f in
      if f_hp x then
        match f_st x with
        | Notified =>
            if fair s && negb (memb f (waiters s)) then (s, mk_obs s [R_PANIC] [])
            else
              let ws := if fair s then remove f (waiters s) else waiters s in
              let '(ws', fs', wk) := wakeup_waiters (fair s) (permits s) ws (upd f absent (futs s)) in
              let s' := mkState (fair s) (permits s) ws' fs' (rels s) (fx s) (clock s) in
              (s', mk_obs s' [R_UNIT] wk)
        | Waiting =>
            if memb f (waiters s) then
              (* unlink, then wakeup_waiters() *)
              let '(ws', fs', wk) :=
                if fx s then wakeup_waiters (fair s) (permits s) (remove f (waiters s)) (upd f absent (futs s))
                else (remove f (waiters s), upd f absent (futs s), []) in
              let s' := mkState (fair s) (permits s) ws' fs' (rels s) (fx s) (clock s) in
              (s', mk_obs s' [R_UNIT] wk)
            else (s, mk_obs s [R_PANIC] [])
        | _ =>
            let s' := mkState (fair s) (permits s) (waiters s) (upd f absent (futs s)) (rels s) (fx s) (clock s) in
            (s', mk_obs s' [R_UNIT] [])
        end
      else
        let s' := mkState (fair s) (permits s) (waiters s) (upd f absent (futs s)) (rels s) (fx s) (clock s) in
        (s', mk_obs s' [R_UNIT] [])
  | TryAcquire n =>
      if can_acquire_sync s n then
        let s' := mkState (fair s) (permits s - n) (waiters s) (futs s) (rels s ++ [n]) (fx s) (clock s) in
        (s', mk_obs s' [R_SOME] [])
      else (s, mk_obs s [R_NONE] [])
  | Release n =>
      let '(s', wk) := do_release s n (rels s) in (s', mk_obs s' [R_UNIT] wk)
  | Disarm i =>
      let a := nth i (rels s) 0%N in
      let s' := mkState (fair s) (permits s) (waiters s) (futs s) (upd i 0%N (rels s)) (fx s) (clock s) in
      (s', mk_obs s' [R_UNIT; a] [])
  | DropReleaser i =>
      let a := nth i (rels s) 0%N in
      let '(s', wk) := do_release s a (remove_nth i (rels s)) in
      (s', mk_obs s' [R_UNIT; a] wk)
  end.

Inductive Reach (k : nat) (b : bool) (p : N) (fixed : bool) : state -> Prop :=
| reach_init : Reach k b p fixed (init k b p fixed)
| reach_step s o : Reach k b p fixed s -> legal s o = true -> Reach k b p fixed (fst (step s o)).

(* ---------------------------------------------------------------------- *)
Definition decode (l : list N) : option op :=
  match l with
  | [0; f; n] => Some (Create (N.to_nat f) n)
  | [1; f; w] => Some (Poll (N.to_nat f) (N.to_nat w))
  | [2; f] => Some (DropFut (N.to_nat f))
  | [3; n] => Some (TryAcquire n)
  | [4; n] => Some (Release n)
  | [5; i] => Some (Disarm (N.to_nat i))
  | [6; i] => Some (DropReleaser (N.to_nat i))
  | _ => None
  end%N.

Definition encode (o : op) : list N :=
  match o with
  | Create f n => [0; nN f; n]
  | Poll f w => [1; nN f; nN w]
  | DropFut f => [2; nN f]
  | TryAcquire n => [3; n]
  | Release n => [4; n]
  | Disarm i => [5; nN i]
  | DropReleaser i => [6; nN i]
  end%N.

Definition bad_obs : obs := mkObs [R_BADOP] [] [] [] [] [] 0.

Definition mstep (s : state) (l : list N) : state * obs :=
  match decode l with
  | Some o => if callable s o then step s o else (s, bad_obs)
  | None => (s, bad_obs)
  end.

(* cfg = [slots; fair; initial permits; max request; max releasers; permit budget; fixed] *)
Record xstate := mkX { xs : state; x_maxreq : N; x_maxrel : nat; x_budget : N }.

Definition minit (cfg : list N) : xstate :=
  match cfg with
  | [k; b; p; mr; ml; bud; fixed] =>
      mkX (init (N.to_nat k) (negb (N.eqb b 0)) p (negb (N.eqb fixed 0))) mr (N.to_nat ml) bud
  | _ => mkX (init 0 false 0 true) 0 0 0
  end.

Definition xstep (x : xstate) (l : list N) : xstate * obs :=
  let '(s', ob) := mstep (xs x) l in (mkX s' (x_maxreq x) (x_maxrel x) (x_budget x), ob).

Definition sumN (l : list N) : N := fold_right N.add 0%N l.

(* exploration alphabet (bounds only restrict what is explored, not the model):
   requests 0..maxreq, at most maxrel live releasers, permits + outstanding <= budget *)
Definition enabled (x : xstate) : list (list N) :=
  let s := xs x in
  (* budget = usize::MAX marks the boundary configuration: requests of (almost) all permits too *)
  let reqs := map N.of_nat (seq 0 (S (N.to_nat (x_maxreq x))))
              ++ (if N.eqb (x_budget x) MAXU then [MAXU; MAXU - 1] else [])%N in
  let room := Nat.ltb (length (rels s)) (x_maxrel x) in
  map encode
    (flat_map (fun f =>
       let y := get s f in
       if f_alive y then
         (if f_hp y && room then [Poll f (2 * f); Poll f (2 * f + 1)] else []) ++ [DropFut f]
       else map (Create f) reqs) (seq 0 (length (futs s)))
     ++ (if room then map TryAcquire reqs else [])
     (* release(0) included: it must be a no-op *)
     ++ flat_map (fun n => if N.leb (permits s + sumN (rels s) + n) (x_budget x)
                           then [Release n] else []) reqs
     ++ flat_map (fun i => [Disarm i; DropReleaser i]) (seq 0 (length (rels s)))).

(* ghost stamps are erased from the exploration key *)
Definition erase_fut (y : fut) : fut :=
  mkFut (f_alive y) (f_hp y) (f_st y) (f_task y) (f_req y) (f_woken y) (f_lastw y) 0.
Definition erase (x : xstate) : xstate :=
  let s := xs x in
  mkX (mkState (fair s) (permits s) (waiters s) (map erase_fut (futs s)) (rels s) (fx s) 0)
      (x_maxreq x) (x_maxrel x) (x_budget x).
