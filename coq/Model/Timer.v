(* Model of src/timer/timer.rs (TimerState, LocalTimerFuture / TimerFuture) over a
   tree-level model of src/intrusive_pairing_heap.rs that reproduces the shape of the heap
   exactly (children in first_child / next order), hence the tie-breaking among equal
   deadlines. *)
From FI Require Export Base.

(* ---------------------------------------------------------------------- *)
(* pairing heap of future ids; keys are looked up through [key] *)
Inductive tree := T (id : fid) (children : list tree).

Definition root_id (t : tree) : fid := match t with T r _ => r end.

Section Heap.
  Variable key : fid -> N.

  (* meld(left, right): the lesser node becomes the root; on equal keys the RIGHT one *)
  Definition meld (l r : tree) : tree :=
    match l, r with
    | T a ca, T b cb =>
        if N.ltb (key a) (key b) then T a (T b cb :: ca)      (* add_child(left, right) *)
        else T b (T a ca :: cb)                                (* add_child(right, left) *)
    end.

  Definition maybe_meld (cur : option tree) (r : tree) : tree :=
    match cur with Some l => meld l r | None => r end.

  (* merge_children: pairs from the right; [rl] = the child list REVERSED (last child first) *)
  Fixpoint merge_rev (fuel : nat) (rl : list tree) (cur : option tree) : option tree :=
    match fuel with
    | O => cur
    | S k =>
        match rl with
        | [] => cur
        | [n] => Some (maybe_meld cur n)                               (* odd case *)
        | n :: p :: rest => merge_rev k rest (Some (maybe_meld cur (meld p n)))
        end
    end.

  Definition merge_children (cs : list tree) : option tree :=
    merge_rev (S (length cs)) (rev cs) None.

  Definition insert (h : option tree) (f : fid) : option tree :=
    match h with
    | None => Some (T f [])
    | Some r => Some (meld r (T f []))
    end.

  (* remove a member: unlink it from its sibling list, merge its children and add the result
     as the FIRST child of its parent (add_child) / make it the root *)
  Fixpoint remove_in (fuel : nat) (f : fid) (cs : list tree) : list tree * bool :=
    match fuel with
    | O => (cs, false)
    | S k =>
        (* is f one of these siblings? *)
        let fix find (l : list tree) : option (list tree * list tree) :=
          match l with
          | [] => None
          | T r rc :: rest =>
              if Nat.eqb r f then Some (rest, rc)
              else match find rest with
                   | Some (rest', rc') => Some (T r rc :: rest', rc')
                   | None => None
                   end
          end in
        match find cs with
        | Some (others, fc) =>
            (match merge_children fc with Some m => m :: others | None => others end, true)
        | None =>
            (* descend *)
            let fix go (l : list tree) : list tree * bool :=
              match l with
              | [] => ([], false)
              | T r rc :: rest =>
                  let '(rc', found) := remove_in k f rc in
                  if found then (T r rc' :: rest, true)
                  else let '(rest', found') := go rest in (T r rc :: rest', found')
              end in
            go cs
        end
    end.

  Fixpoint size (t : tree) : nat :=
    match t with T _ cs => S (fold_right (fun c n => size c + n) 0 cs) end.

  Definition remove (h : option tree) (f : fid) : option tree :=
    match h with
    | None => None
    | Some (T r cs) =>
        if Nat.eqb r f then merge_children cs
        else Some (T r (fst (remove_in (size (T r cs)) f cs)))
    end.

  Definition peek_min (h : option tree) : option fid :=
    match h with Some t => Some (root_id t) | None => None end.

  Fixpoint elements (t : tree) : list fid :=
    match t with T r cs => r :: flat_map elements cs end.

  Definition helements (h : option tree) : list fid :=
    match h with Some t => elements t | None => [] end.

  (* pre-order walk with the number of children, as printed by the hook *)
  Fixpoint preorder (t : tree) : list (fid * nat) :=
    match t with T r cs => (r, length cs) :: flat_map preorder cs end.
End Heap.

(* ---------------------------------------------------------------------- *)
Inductive pst := Unreg | Reg | Expired.

Record fut := mkFut {
  f_alive : bool; f_hp : bool; f_st : pst; f_task : option wid; f_expiry : N;
  (* ghost *) f_woken : bool; f_lastw : option wid
}.
Definition absent : fut := mkFut false false Unreg None 0 false None.

Record state := mkState {
  now : N;
  heap : option tree;
  futs : list fut
}.

Definition MAXU : N := 18446744073709551615.

Inductive op :=
| SetTime (t : N)
| Deadline (f : fid) (t : N)
| Delay (f : fid) (secs nanos : N)
| Poll (f : fid) (w : wid) | DropFut (f : fid)
| CheckExp | NextExp.

Definition get (s : state) (f : fid) : fut := nth f (futs s) absent.
Definition keyof (fs : list fut) (f : fid) : N := f_expiry (nth f fs absent).

Definition init (k : nat) : state := mkState 0 None (repeat absent k).

Definition legal (s : state) (o : op) : bool :=
  match o with
  | SetTime t => N.leb (now s) t && N.leb t MAXU                      (* the Clock contract: monotone *)
  | Deadline f t => Nat.ltb f (length (futs s)) && negb (f_alive (get s f)) && N.leb t MAXU
  | Delay f secs nanos =>
      Nat.ltb f (length (futs s)) && negb (f_alive (get s f)) && N.leb secs MAXU && N.ltb nanos 1000000000
  | Poll f _ => f_alive (get s f) && f_hp (get s f)
  | DropFut f => f_alive (get s f)
  | _ => true
  end.

Definition callable (s : state) (o : op) : bool :=
  match o with
  | Poll f _ => f_alive (get s f)
  | _ => legal s o
  end.

Definition st_code (p : pst) : N := match p with Unreg => 0 | Reg => 1 | Expired => 2 end%N.
Definition term_of (x : fut) : N := if f_alive x then (if f_hp x then 0 else 1)%N else 2%N.

Definition snapshot (s : state) : list N :=
  match heap s with
  | None => []
  | Some t =>
      flat_map (fun p => let x := get s (fst p) in
                         [nN (fst p); st_code (f_st x); optN (f_task x); N.modulo (f_expiry x) 281474976710656; nN (snd p)])
               (preorder t)
  end.

Definition next_expiration (s : state) : option N :=
  match peek_min (heap s) with Some r => Some (f_expiry (get s r)) | None => None end.

Definition mk_obs (s : state) (res : list N) (wakes : list wid) : obs :=
  mkObs res (map nN wakes) []
        (now s :: match next_expiration s with Some e => [1%N; e] | None => [0%N] end)
        (map term_of (futs s)) (snapshot s) 0.

Definition woke_by (task lastw : option wid) : bool :=
  match task, lastw with Some w, Some w' => Nat.eqb w w' | _, _ => false end.
Definition wk_list (task : option wid) : list wid := match task with Some w => [w] | None => [] end.

(* deadline_from_now: min(as_millis, u64::MAX) then saturating_add *)
Definition deadline_from_now (n secs nanos : N) : N :=
  let ms := N.min (secs * 1000 + nanos / 1000000) MAXU in
  N.min (n + ms) MAXU.

(* check_expirations: while the root is due, mark it Expired, wake it, remove it *)
Fixpoint expire (fuel : nat) (n : N) (h : option tree) (fs : list fut) (acc : list wid)
  : option tree * list fut * list wid :=
  match fuel with
  | O => (h, fs, acc)
  | S k =>
      match peek_min h with
      | None => (h, fs, acc)
      | Some r =>
          let x := nth r fs absent in
          if N.leb (f_expiry x) n then
            let fs' := upd r (mkFut (f_alive x) (f_hp x) Expired None (f_expiry x)
                                    (f_woken x || woke_by (f_task x) (f_lastw x)) (f_lastw x)) fs in
            (* keys do not change, so the heap may keep using the old table *)
            expire k n (remove (keyof fs) h r) fs' (acc ++ wk_list (f_task x))
          else (h, fs, acc)
      end
  end.

Definition step (s : state) (o : op) : state * obs :=
  match o with
  | SetTime t => let s' := mkState t (heap s) (futs s) in (s', mk_obs s' [R_UNIT] [])
  | Deadline f t =>
      let s' := mkState (now s) (heap s) (upd f (mkFut true true Unreg None t false None) (futs s)) in
      (s', mk_obs s' [R_UNIT; t] [])
  | Delay f secs nanos =>
      let t := deadline_from_now (now s) secs nanos in
      let s' := mkState (now s) (heap s) (upd f (mkFut true true Unreg None t false None) (futs s)) in
      (s', mk_obs s' [R_UNIT] [])
  | Poll f w =>
      let x := get s f in
      if negb (f_hp x) then (s, mk_obs s [R_PANIC] [])
      else match f_st x with
      | Unreg =>
          if N.leb (f_expiry x) (now s) then
            let s' := mkState (now s) (heap s)
                        (upd f (mkFut true false Expired (f_task x) (f_expiry x) false (Some w)) (futs s)) in
            (s', mk_obs s' [R_READY] [])
          else if existsb (Nat.eqb f) (helements (heap s)) then (s, mk_obs s [R_UB] [])
          else
            let fs' := upd f (mkFut true true Reg (Some w) (f_expiry x) false (Some w)) (futs s) in
            let s' := mkState (now s) (insert (keyof fs') (heap s) f) fs' in
            (s', mk_obs s' [R_PENDING] [])
      | Reg =>
          let s' := mkState (now s) (heap s)
                      (upd f (mkFut true true Reg (Some w) (f_expiry x) false (Some w)) (futs s)) in
          (s', mk_obs s' [R_PENDING] [])
      | Expired =>
          let s' := mkState (now s) (heap s)
                      (upd f (mkFut true false Expired (f_task x) (f_expiry x) false (Some w)) (futs s)) in
          (s', mk_obs s' [R_READY] [])
      end
  | DropFut f =>
      let x := get s f in
      if f_hp x && match f_st x with Reg => true | _ => false end then
        if existsb (Nat.eqb f) (helements (heap s)) then
          let s' := mkState (now s) (remove (keyof (futs s)) (heap s) f) (upd f absent (futs s)) in
          (s', mk_obs s' [R_UNIT] [])
        else (s, mk_obs s [R_UB] [])               (* remove of a non-member *)
      else
        let s' := mkState (now s) (heap s) (upd f absent (futs s)) in (s', mk_obs s' [R_UNIT] [])
  | CheckExp =>
      let '(h', fs', wk) := expire (length (helements (heap s))) (now s) (heap s) (futs s) [] in
      let s' := mkState (now s) h' fs' in
      (s', mk_obs s' [R_UNIT] wk)
  | NextExp =>
      (s, mk_obs s (match next_expiration s with Some e => [R_SOME; e] | None => [R_NONE] end) [])
  end.

Inductive Reach (k : nat) : state -> Prop :=
| reach_init : Reach k (init k)
| reach_step s o : Reach k s -> legal s o = true -> Reach k (fst (step s o)).

(* ---------------------------------------------------------------------- *)
Definition decode (l : list N) : option op :=
  match l with
  | [0; t] => Some (SetTime t)
  | [1; f; t] => Some (Deadline (N.to_nat f) t)
  | [2; f; s; n] => Some (Delay (N.to_nat f) s n)
  | [3; f; w] => Some (Poll (N.to_nat f) (N.to_nat w))
  | [4; f] => Some (DropFut (N.to_nat f))
  | [5] => Some CheckExp
  | [6] => Some NextExp
  | _ => None
  end%N.

Definition encode (o : op) : list N :=
  match o with
  | SetTime t => [0; t]
  | Deadline f t => [1; nN f; t]
  | Delay f s n => [2; nN f; s; n]
  | Poll f w => [3; nN f; nN w]
  | DropFut f => [4; nN f]
  | CheckExp => [5]
  | NextExp => [6]
  end%N.

Definition bad_obs : obs := mkObs [R_BADOP] [] [] [] [] [] 0.

Definition mstep (s : state) (l : list N) : state * obs :=
  match decode l with
  | Some o => if callable s o then step s o else (s, bad_obs)
  | None => (s, bad_obs)
  end.

(* cfg = [slots; number of distinct deadlines d (deadlines 1..d); max time] *)
Record xstate := mkX { xs : state; x_d : nat; x_tmax : N }.

Definition minit (cfg : list N) : xstate :=
  match cfg with
  | [k; d; tm] => mkX (init (N.to_nat k)) (N.to_nat d) tm
  | _ => mkX (init 0) 0 0
  end.

Definition xstep (x : xstate) (l : list N) : xstate * obs :=
  let '(s', ob) := mstep (xs x) l in (mkX s' (x_d x) (x_tmax x), ob).

Definition enabled (x : xstate) : list (list N) :=
  let s := xs x in
  map encode
    ((if N.ltb (now s) (x_tmax x) then [SetTime (now s + 1)] else [])
     ++ flat_map (fun f =>
          let y := get s f in
          if f_alive y then
            (if f_hp y then [Poll f (2 * f); Poll f (2 * f + 1)] else []) ++ [DropFut f]
          else map (fun t => Deadline f (N.of_nat t)) (seq 1 (x_d x))
               (* tmax = 0 marks the delay-boundary configuration: durations around the
                  millisecond conversion and the two saturation points *)
               ++ (if N.eqb (x_tmax x) 0 then
                     map (fun p => Delay f (fst p) (snd p))
                         [(0, 0); (0, 999999); (0, 1000000); (1, 999999999); (18446744073709551, 615000000);
                          (18446744073709551, 616000000); (2305843009213693952, 0); (18446744073709551615, 999999999);
                          (18446744073709552, 50000000)]%N
                   else [])) (seq 0 (length (futs s)))
     ++ [CheckExp; NextExp]).
