(* Vocabulary in which C05-C07 are stated: histories, observable traces and three
   monitors.  A monitor is a function of the observable trace alone (operations, results,
   wake lists, the permits() probe); the same extracted functions are evaluated on the
   traces of the real crate when a check looks for a failing input. *)
From FI Require Export Semaphore.

Definition run (s : state) (ops : list op) : state :=
  fold_left (fun s o => fst (step s o)) ops s.

Fixpoint legal_run (s : state) (ops : list op) : Prop :=
  match ops with
  | [] => True
  | o :: r => legal s o = true /\ legal_run (fst (step s o)) r
  end.

Fixpoint trace (s : state) (ops : list op) : list (op * obs) :=
  match ops with
  | [] => []
  | o :: r => (o, snd (step s o)) :: trace (fst (step s o)) r
  end.

(* each future is polled with wakers of its own (ids 2f and 2f+1): wake events can then
   be attributed to futures from the trace *)
Definition private_wakers (ops : list op) : Prop :=
  forall f w, In (Poll f w) ops -> Nat.div w 2 = f.

Definition res_is (c : N) (ob : obs) : bool := N.eqb (hd 99%N (o_res ob)) c.
Definition res_arg (ob : obs) : N := nth 1 (o_res ob) 0%N.
Definition probe_permits (ob : obs) : N := hd 0%N (o_probe ob).

(* ------------------------------------------------------------------------------------ *)
(* C05: the permit ledger.  [l_permits] is what permits() must return, [l_rels] what each
   live releaser must return when dropped, [l_req] the request of each acquire future. *)
Record ledger := mkLedger { l_permits : Z; l_rels : list N; l_req : list N; l_ok : bool }.

Definition ledger_step (l : ledger) (e : op * obs) : ledger :=
  let '(o, ob) := e in
  let before := l_permits l in
  let l' :=
    match o with
    | Create f n => mkLedger before (l_rels l) (upd f n (l_req l)) true
    | Poll f _ =>
        if res_is R_READY ob then
          let n := nth f (l_req l) 0%N in
          (* completes only when at least n are available, and takes exactly n *)
          mkLedger (before - Z.of_N n) (l_rels l ++ [n]) (l_req l)
                   (N.eqb (res_arg ob) n && Z.leb (Z.of_N n) before)
        else mkLedger before (l_rels l) (l_req l) true
    | TryAcquire n =>
        if res_is R_SOME ob then
          mkLedger (before - Z.of_N n) (l_rels l ++ [n]) (l_req l) (Z.leb (Z.of_N n) before)
        else mkLedger before (l_rels l) (l_req l) true
    | Release n => mkLedger (before + Z.of_N n) (l_rels l) (l_req l) true
    | Disarm i =>
        (* returns what the releaser held; afterwards the releaser returns nothing *)
        mkLedger before (upd i 0%N (l_rels l)) (l_req l) (N.eqb (res_arg ob) (nth i (l_rels l) 0%N))
    | DropReleaser i =>
        let a := nth i (l_rels l) 0%N in
        mkLedger (before + Z.of_N a) (remove_nth i (l_rels l)) (l_req l) (N.eqb (res_arg ob) a)
    | DropFut _ => mkLedger before (l_rels l) (l_req l) true
    end in
  (* permits() after the call equals the ledger *)
  mkLedger (l_permits l') (l_rels l') (l_req l')
           (l_ok l && l_ok l' && Z.eqb (Z.of_N (probe_permits ob)) (l_permits l')
            && Nat.eqb (length (l_rels l')) (N.to_nat (nth 1 (o_probe ob) 0%N))).

Definition ledger_ok (k : nat) (p0 : N) (tr : list (op * obs)) : bool :=
  l_ok (fold_left ledger_step tr (mkLedger (Z.of_N p0) [] (repeat 0%N k) true)).

(* ------------------------------------------------------------------------------------ *)
(* C06 / C07: pending requests in the order of the start of their current wait (head =
   newest), and "woken since its last poll through the waker of that poll". *)
Record mfut := mkMfut { m_pending : bool; m_req : N; m_last : N; m_woken : bool }.
Record mon := mkMon { m_futs : list mfut; m_arr : list fid; m_good : bool }.

Definition mabsent : mfut := mkMfut false 0 0 false.
Definition mget (m : mon) (f : fid) : mfut := nth f (m_futs m) mabsent.

Definition mark_woken (wakes : list N) (x : mfut) : mfut :=
  if m_pending x && existsb (N.eqb (m_last x)) wakes
  then mkMfut true (m_req x) (m_last x) true else x.

(* the ordering rule of C06 *)
Definition mon_track (is_fair : bool) (m : mon) (e : op * obs) : mon :=
  let '(o, ob) := e in
  let m1 :=
    match o with
    | Create f n => mkMon (upd f (mkMfut false n 0 false) (m_futs m)) (remove f (m_arr m)) (m_good m)
    | DropFut f => mkMon (upd f mabsent (m_futs m)) (remove f (m_arr m)) (m_good m)
    | Poll f w =>
        let x := mget m f in
        if res_is R_READY ob then
          mkMon (upd f (mkMfut false (m_req x) 0 false) (m_futs m)) (remove f (m_arr m)) (m_good m)
        else if res_is R_PENDING ob then
          let x' := mkMfut true (m_req x) (nN w) false in
          if m_pending x then
            (* still waiting; unfair only: a woken future that found too few permits starts
               a new wait, as the newest *)
            if negb is_fair && m_woken x
            then mkMon (upd f x' (m_futs m)) (f :: remove f (m_arr m)) (m_good m)
            else mkMon (upd f x' (m_futs m)) (m_arr m) (m_good m)
          else mkMon (upd f x' (m_futs m)) (f :: m_arr m) (m_good m)
        else m
    | _ => m
    end in
  mkMon (map (mark_woken (o_wake ob)) (m_futs m1)) (m_arr m1) (m_good m1).

(* C06 at a quiescent point: requests pending, none holds an unconsumed wake-up
   ==> the longest-waiting request does not fit *)
Definition stranded_free (m : mon) (permits : N) : bool :=
  match olast (m_arr m) with
  | None => true
  | Some g =>
      existsb (fun f => m_woken (mget m f)) (m_arr m) || N.ltb permits (m_req (mget m g))
  end.

Definition mon06_step (is_fair : bool) (m : mon) (e : op * obs) : mon :=
  let m' := mon_track is_fair m e in
  mkMon (m_futs m') (m_arr m') (m_good m' && stranded_free m' (probe_permits (snd e))).

Definition no_stranded_waiter (k : nat) (is_fair : bool) (tr : list (op * obs)) : bool :=
  m_good (fold_left (mon06_step is_fair) tr (mkMon (repeat mabsent k) [] true)).

(* C07 (fair): a request for n > 0 completes only if no other pending request is older;
   a request for 0 completes at its first poll *)
Definition mon07_step (m : mon) (e : op * obs) : mon :=
  let '(o, ob) := e in
  let ok :=
    match o with
    | Poll f _ =>
        let x := mget m f in
        if res_is R_READY ob then
          N.eqb (m_req x) 0 ||
          match olast (m_arr m) with None => true | Some g => Nat.eqb g f end
        else if res_is R_PENDING ob then negb (N.eqb (m_req x) 0)
        else true
    | TryAcquire n =>
        if res_is R_SOME ob then N.eqb n 0 || match m_arr m with [] => true | _ => false end else true
    | _ => true
    end in
  let m' := mon_track true m e in
  mkMon (m_futs m') (m_arr m') (m_good m' && ok).

Definition fair_order_ok (k : nat) (tr : list (op * obs)) : bool :=
  m_good (fold_left mon07_step tr (mkMon (repeat mabsent k) [] true)).

(* arrival order after a history, for the statement "cancelling keeps the order of the rest" *)
Definition arrivals (k : nat) (is_fair : bool) (tr : list (op * obs)) : list fid :=
  m_arr (fold_left (mon_track is_fair) tr (mkMon (repeat mabsent k) [] true)).

(* ------------------------------------------------------------------------------------ *)
(* encoded entry points for the extracted runner: trace = list of (encoded op, obs) *)
Definition dec_trace (tr : list (list N * obs)) : list (op * obs) :=
  flat_map (fun e => match decode (fst e) with Some o => [(o, snd e)] | None => [] end) tr.

Definition monitor (which : N) (cfg : list N) (tr : list (list N * obs)) : bool :=
  match cfg with
  | k :: b :: p0 :: _ =>
      let k := N.to_nat k in let fairb := negb (N.eqb b 0) in
      match which with
      | 5%N => ledger_ok k p0 (dec_trace tr)
      | 6%N => no_stranded_waiter k fairb (dec_trace tr)
      | 7%N => if fairb then fair_order_ok k (dec_trace tr) else true
      | _ => true
      end
  | _ => true
  end.

Definition machine : Base.machine := mkMachine xstate minit xstep enabled erase monitor.
