(* Streams over the mpmc channel: ChannelStream (borrowed) and SharedStream (owns a receiver
   handle).  A stream is an auto-managed receive future: poll_next creates the future if
   absent, polls it, and drops it as soon as it is ready; None terminates the stream.
   Everything is composed from the steps of Model/Mpmc.v -- which is the content of "streams
   yield exactly the values successive receives would". *)
From FI Require Export Mpmc MpmcSpec.

Record stream := mkStream { st_alive : bool; st_term : bool }.
Definition no_stream : stream := mkStream false false.

Record zstate := mkZ {
  zs : state;
  z_shared : bool; z_maxh : nat;
  z_streams : list stream           (* stream k uses receive slot (length rfs - 1 - k) *)
}.

Definition slot_of (z : zstate) (k : nat) : fid := length (rfs (zs z)) - 1 - k.
Definition sget (z : zstate) (k : nat) : stream := nth k (z_streams z) no_stream.
Definition live_streams (z : zstate) : nat := length (filter st_alive (z_streams z)).
(* receiver handles the client still holds itself (shared streams own one each) *)
Definition free_receivers (z : zstate) : nat :=
  if z_shared z then receivers (zs z) - live_streams z else receivers (zs z).

Definition with_s (z : zstate) (s : state) : zstate := mkZ s (z_shared z) (z_maxh z) (z_streams z).
Definition with_stream (z : zstate) (k : nat) (x : stream) : zstate :=
  mkZ (zs z) (z_shared z) (z_maxh z) (upd k x (z_streams z)).

Definition stream_terms (z : zstate) : list N :=
  map (fun x => if st_alive x then (if st_term x then 1 else 0)%N else 2%N) (z_streams z).

Definition add_terms (z : zstate) (o : obs) : obs :=
  match o_term o with
  | [] => o
  | t => mkObs (o_res o) (o_wake o) (o_val o) (o_probe o) (t ++ stream_terms z) (o_queue o) (o_alloc o)
  end.

(* poll_next *)
Definition stream_poll (z : zstate) (k : nat) (w : wid) : zstate * obs :=
  let x := sget z k in
  let f := slot_of z k in
  if st_term x then (z, mk_obs (zs z) [R_NONE] [] [])          (* terminated: None, nothing touched *)
  else
    let '(s1, o1) := if r_alive (getr (zs z) f) then (zs z, mk_obs (zs z) [] [] [])
                     else step_c (zs z) (CreateRecv f) in
    let '(s2, o2) := step_c s1 (PollRecv f w) in
    let ready := negb (N.eqb (hd 99%N (o_res o2)) R_PENDING) in
    if ready then
      let '(s3, o3) := step_c s2 (DropRecv f) in               (* future.take(): the completed future is dropped *)
      let z' := with_s z s3 in
      let z' := if N.eqb (hd 99%N (o_res o2)) R_NONE then with_stream z' k (mkStream true true) else z' in
      (z', with_res (o_res o2) (seq_obs (seq_obs o1 o2) o3))
    else (with_s z s2, with_res (o_res o2) (seq_obs o1 o2)).

(* drop(stream): SharedStream drops its receiver handle BEFORE its pending future (field
   order); ChannelStream just drops the future *)
Definition stream_drop (z : zstate) (k : nat) : zstate * obs :=
  let f := slot_of z k in
  let '(s1, o1) := if z_shared z then drop_receiver (zs z) else (zs z, mk_obs (zs z) [] [] []) in
  let '(s2, o2) := if r_alive (getr s1 f) then step_c s1 (DropRecv f) else (s1, mk_obs s1 [] [] []) in
  (with_stream (with_s z s2) k no_stream, with_res [R_UNIT] (seq_obs o1 o2)).

Definition needs_free_receiver (l : list N) : bool :=
  match l with
  | [4%N; _] | [8%N] | [13%N] | [16%N] => true
  | _ => false
  end.

Definition is_stream_slot (z : zstate) (f : fid) : bool :=
  existsb (fun k => Nat.eqb (slot_of z k) f) (seq 0 (length (z_streams z))).

Definition zstep (z : zstate) (l : list N) : zstate * obs :=
  let '(z', o) :=
    match l with
    | [30%N; k] =>
        let k := N.to_nat k in
        if negb (gone (zs z)) && Nat.ltb k (length (z_streams z)) && negb (st_alive (sget z k))
           && Nat.ltb 0 (free_receivers z)
        then (with_stream z k (mkStream true false), mk_obs (zs z) [R_UNIT] [] [])
        else (z, bad_obs)
    | [31%N; k; w] =>
        let k := N.to_nat k in
        if negb (gone (zs z)) && st_alive (sget z k) then stream_poll z k (N.to_nat w) else (z, bad_obs)
    | [32%N; k] =>
        let k := N.to_nat k in
        if negb (gone (zs z)) && st_alive (sget z k) then stream_drop z k else (z, bad_obs)
    | [20%N] =>
        let '(s', o) := mstep (zs z) l in
        (mkZ s' (z_shared z) (z_maxh z) (map (fun _ => no_stream) (z_streams z)), o)
    | _ =>
        if needs_free_receiver l && negb (Nat.ltb 0 (free_receivers z)) then (z, bad_obs)
        else match l with
             | [4%N; f] | [5%N; f; _] | [6%N; f] =>
                 if is_stream_slot z (N.to_nat f) then (z, bad_obs)
                 else let '(s', o) := mstep (zs z) l in (with_s z s', o)
             | _ => let '(s', o) := mstep (zs z) l in (with_s z s', o)
             end
    end in
  (z', add_terms z' o).

(* cfg = [receive slots; send slots; capacity; shared; max handles per side; streams] *)
Definition zinit (cfg : list N) : zstate :=
  match cfg with
  | [kr; ks; c; sh; mh] => mkZ (init (N.to_nat kr) (N.to_nat ks) (N.to_nat c)) (negb (N.eqb sh 0)) (N.to_nat mh) []
  | [kr; ks; c; sh; mh; ns] =>
      mkZ (init (N.to_nat kr) (N.to_nat ks) (N.to_nat c)) (negb (N.eqb sh 0)) (N.to_nat mh)
          (repeat no_stream (N.to_nat ns))
  | _ => mkZ (init 0 0 0) false 0 []
  end.

Definition zenabled (z : zstate) : list (list N) :=
  let base := enabled (mkX (zs z) (z_shared z) (z_maxh z)) in
  if gone (zs z) then [] else
  filter (fun l =>
            negb (needs_free_receiver l && negb (Nat.ltb 0 (free_receivers z))) &&
            negb (match l with
                  | [4%N; f] | [5%N; f; _] | [6%N; f] => is_stream_slot z (N.to_nat f)
                  | _ => false end)) base
  ++ flat_map (fun k =>
       let x := sget z k in
       if st_alive x then [[31%N; nN k; nN (2 * slot_of z k)]; [32%N; nN k]]
       else if Nat.ltb 0 (free_receivers z) then [[30%N; nN k]] else [])
     (seq 0 (length (z_streams z))).

(* the stream ops reach the monitors as the receive-future ops they are made of; the merged
   observation is attached to the poll *)
Definition zmonitor (which : N) (cfg : list N) (tr : list (list N * obs)) : bool :=
  match cfg with
  | kr :: _ =>
      let kr := N.to_nat kr in
      let tr' := map (fun e => match fst e with
                               | [31%N; k; w] => ([5%N; nN (kr - 1 - N.to_nat k); w], snd e)
                               | [32%N; k] => ([6%N; nN (kr - 1 - N.to_nat k)], snd e)
                               | _ => e end) tr in
      match which with
      (* C11 = handle lifecycle (raw trace) and "a closing call wakes every pending future" *)
      | 11%N => monitor 11%N cfg tr && monitor 21%N cfg tr'
      (* C08 = conservation (stream ops seen as receive-future ops) and placement of destruction
         (raw trace: a shared stream owns a receiver handle) *)
      | 8%N => monitor 8%N cfg tr' && monitor 18%N cfg tr
      | _ => monitor which cfg tr'
      end
  | _ => true
  end.

Definition machine : Base.machine := mkMachine zstate zinit zstep zenabled (fun z => z) zmonitor.

(* ------------------------------------------------------------------------------------ *)
(* C17 (streams) *)

(* a terminated stream keeps returning None and touches nothing *)
Lemma stream_terminated_stays : forall z k w,
  st_term (sget z k) = true ->
  fst (stream_poll z k w) = z /\ o_res (snd (stream_poll z k w)) = [R_NONE].
Proof. intros z k w H. unfold stream_poll. rewrite H. split; reflexivity. Qed.

(* a stream item is exactly the result of the receive-future poll it is made of, and the
   stream terminates exactly when that poll yields None *)
Lemma stream_item_is_receive : forall z k w,
  st_term (sget z k) = false ->
  let f := slot_of z k in
  let s1 := if r_alive (getr (zs z) f) then zs z else fst (step_c (zs z) (CreateRecv f)) in
  o_res (snd (stream_poll z k w)) = o_res (snd (step_c s1 (PollRecv f w))).
Proof.
  intros z k w H f s1. unfold stream_poll. rewrite H. fold f.
  subst s1. destruct (r_alive (getr (zs z) f)).
  - destruct (step_c (zs z) (PollRecv f w)) as [s2 o2] eqn:E2. cbn [fst snd].
    destruct (negb (N.eqb (hd 99%N (o_res o2)) R_PENDING)).
    + destruct (step_c s2 (DropRecv f)) as [s3 o3]. reflexivity.
    + reflexivity.
  - destruct (step_c (zs z) (CreateRecv f)) as [s1 o1]. cbn [fst snd].
    destruct (step_c s1 (PollRecv f w)) as [s2 o2] eqn:E2. cbn [fst snd].
    destruct (negb (N.eqb (hd 99%N (o_res o2)) R_PENDING)).
    + destruct (step_c s2 (DropRecv f)) as [s3 o3]. reflexivity.
    + reflexivity.
Qed.
