(* Vocabulary in which C02-C04 are stated: histories, observable traces, and trackers
   that are functions of the observable trace alone (operations, results, wake lists). *)
From FI Require Export Mutex.

Definition run (s : state) (ops : list op) : state :=
  fold_left (fun s o => fst (step s o)) ops s.

Fixpoint legal_run (s : state) (ops : list op) : Prop :=
  match ops with
  | [] => True
  | o :: r => legal s o = true /\ legal_run (fst (step s o)) r
  end.

(* the observable trace: each operation with what the caller sees *)
Fixpoint trace (s : state) (ops : list op) : list (op * obs) :=
  match ops with
  | [] => []
  | o :: r => (o, snd (step s o)) :: trace (fst (step s o)) r
  end.

(* a lock future is pending: polled, not completed, not dropped *)
Definition pending (x : fut) : bool :=
  f_alive x && f_hp x && match f_st x with Waiting | Notified => true | _ => false end.

(* ---- C03: "woken since its last poll through the waker supplied at that poll",
        recomputed from the trace ---- *)
Record wk := mkWk { wk_last : option wid; wk_woken : bool }.

Definition wk_step (t : fid -> wk) (e : op * obs) : fid -> wk :=
  let '(o, ob) := e in
  let t1 : fid -> wk :=
    match o with
    | Create f | DropFut f => fun g => if Nat.eqb g f then mkWk None false else t g
    | Poll f w =>
        if N.eqb (hd 0%N (o_res ob)) R_PANIC then t
        else fun g => if Nat.eqb g f then mkWk (Some w) false else t g
    | _ => t
    end in
  fun g =>
    let x := t1 g in
    match wk_last x with
    | Some w => mkWk (Some w) (wk_woken x || existsb (N.eqb (nN w)) (o_wake ob))
    | None => x
    end.

Definition wk_track (tr : list (op * obs)) : fid -> wk :=
  fold_left wk_step tr (fun _ => mkWk None false).

(* ---- C04: arrival order of the pending futures, recomputed from the trace
        (head = newest, like the wait queue) ---- *)
Definition arr_step (l : list fid) (e : op * obs) : list fid :=
  let '(o, ob) := e in
  match o with
  | Poll f _ =>
      if N.eqb (hd 0%N (o_res ob)) R_PENDING then (if memb f l then l else f :: l)
      else if N.eqb (hd 0%N (o_res ob)) R_READY then remove f l
      else l
  | DropFut f => remove f l
  | _ => l
  end.

Definition arrivals (tr : list (op * obs)) : list fid := fold_left arr_step tr [].

(* ------------------------------------------------------------------------------------ *)
(* boolean monitors over an observed trace, used to search the implementation's own traces
   for a failing input when a proof or the correspondence of C02-C04 breaks.  They restate
   the theorems of Properties/C02-C04.v on the trackers above. *)
Definition res_is (c : N) (ob : obs) : bool := N.eqb (hd 99%N (o_res ob)) c.
Definition probe_locked (ob : obs) : bool := negb (N.eqb (nth 0 (o_probe ob) 0%N) 0).
Definition probe_guards (ob : obs) : N := nth 1 (o_probe ob) 0%N.

Record mmon := mkMmon { mm_wk : fid -> wk; mm_arr : list fid; mm_guards : N; mm_good : bool }.

(* C02: at most one guard; a grant only while no guard is alive; is_locked exact *)
Definition mon02_step (m : mmon) (e : op * obs) : mmon :=
  let '(o, ob) := e in
  let grant := match o with
               | Poll _ _ => res_is R_READY ob
               | TryLock => res_is R_SOME ob
               | _ => false end in
  let g' := if grant then (mm_guards m + 1)%N
            else match o with DropGuard => N.pred (mm_guards m) | _ => mm_guards m end in
  let ok := (negb grant || N.eqb (mm_guards m) 0) && N.leb g' 1
            && Bool.eqb (probe_locked ob) (N.eqb g' 1) && N.eqb (probe_guards ob) g'
            && match o with IsLocked => res_is (Rbool (N.eqb g' 1)) ob | _ => true end in
  mkMmon (mm_wk m) (mm_arr m) g' (mm_good m && ok).

(* C03: free and somebody pending => a pending future (fair: the oldest) holds a wake-up *)
Definition mon03_step (is_fair : bool) (m : mmon) (e : op * obs) : mmon :=
  let wk' := wk_step (mm_wk m) e in
  let arr' := arr_step (mm_arr m) e in
  let ok :=
    probe_locked (snd e) ||
    match olast arr' with
    | None => true
    | Some oldest =>
        if is_fair then wk_woken (wk' oldest) else existsb (fun f => wk_woken (wk' f)) arr'
    end in
  mkMmon wk' arr' (mm_guards m) (mm_good m && ok).

(* C04 (fair): grants in arrival order *)
Definition mon04_step (m : mmon) (e : op * obs) : mmon :=
  let '(o, ob) := e in
  let ok :=
    match o with
    | Poll f _ => if res_is R_READY ob
                  then match olast (mm_arr m) with None => true | Some g => Nat.eqb g f end
                  else true
    | TryLock => if res_is R_SOME ob then match mm_arr m with [] => true | _ => false end else true
    | _ => true
    end in
  mkMmon (mm_wk m) (arr_step (mm_arr m) e) (mm_guards m) (mm_good m && ok).

Definition mmon0 : mmon := mkMmon (fun _ => mkWk None false) [] 0 true.

Definition dec_trace (tr : list (list N * obs)) : list (op * obs) :=
  flat_map (fun e => match decode (fst e) with Some o => [(o, snd e)] | None => [] end) tr.

Definition monitor (which : N) (cfg : list N) (tr : list (list N * obs)) : bool :=
  match cfg with
  | [_; b] =>
      let is_fair := negb (N.eqb b 0) in
      match which with
      | 2%N => mm_good (fold_left mon02_step (dec_trace tr) mmon0)
      | 3%N => mm_good (fold_left (mon03_step is_fair) (dec_trace tr) mmon0)
      | 4%N => if is_fair then mm_good (fold_left mon04_step (dec_trace tr) mmon0) else true
      | _ => true
      end
  | _ => true
  end.

Definition machine : Base.machine := mkMachine state minit mstep enabled (fun s => s) monitor.
