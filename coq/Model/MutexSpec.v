(* Vocabulary in which C02-C04 are stated: histories, observable traces, and trackers
   that are functions of the observable trace alone (operations, results, wake lists). *)
From FI Require Export Mutex.

Definition run (s : state) (ops : list op) : state :=
  fold_left (fun s o => fst (step s o)) ops s.

Fixpoint legal_run (s : state) (ops : list op) : Prop :=
  match ops with
  | [] => True
  | o :: r => legal s o = true /\ legal_run (fst (step s o)) r
  end.

(* the observable trace: each operation with what the caller sees *)
Fixpoint trace (s : state) (ops : list op) : list (op * obs) :=
  match ops with
  | [] => []
  | o :: r => (o, snd (step s o)) :: trace (fst (step s o)) r
  end.

(* a lock future is pending: polled, not completed, not dropped *)
Definition pending (x : fut) : bool :=
  f_alive x && f_hp x && match f_st x with Waiting | Notified => true | _ => false end.

(* ---- C03: "woken since its last poll through the waker supplied at that poll",
        recomputed from the trace ---- *)
Record wk := mkWk { wk_last : option wid; wk_woken : bool }.

Definition wk_step (t : fid -> wk) (e : op * obs) : fid -> wk :=
  let '(o, ob) := e in
  let t1 : fid -> wk :=
    match o with
    | Create f | DropFut f => fun g => if Nat.eqb g f then mkWk None false else t g
    | Poll f w =>
        if N.eqb (hd 0%N (o_res ob)) R_PANIC then t
        else fun g => if Nat.eqb g f then mkWk (Some w) false else t g
    | _ => t
    end in
  fun g =>
    match wk_last (t1 g) with
    | Some w => mkWk (Some w) (wk_woken (t1 g) || existsb (N.eqb (nN w)) (o_wake ob))
    | None => t1 g
    end.

Definition wk_track (tr : list (op * obs)) : fid -> wk :=
  fold_left wk_step tr (fun _ => mkWk None false).

(* ---- C04: arrival order of the pending futures, recomputed from the trace
        (head = newest, like the wait queue) ---- *)
Definition arr_step (l : list fid) (e : op * obs) : list fid :=
  let '(o, ob) := e in
  match o with
  | Poll f _ =>
      if N.eqb (hd 0%N (o_res ob)) R_PENDING then (if memb f l then l else f :: l)
      else if N.eqb (hd 0%N (o_res ob)) R_READY then remove f l
      else l
  | DropFut f => remove f l
  | _ => l
  end.

Definition arrivals (tr : list (op * obs)) : list fid := fold_left arr_step tr [].
