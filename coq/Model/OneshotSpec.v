(* Vocabulary in which C12 and the oneshot part of C11 are stated. *)
From FI Require Export Oneshot.

Definition run (s : state) (ops : list op) : state :=
  fold_left (fun s o => fst (step s o)) ops s.

Fixpoint legal_run (s : state) (ops : list op) : Prop :=
  match ops with
  | [] => True
  | o :: r => legal s o = true /\ legal_run (fst (step s o)) r
  end.

Fixpoint trace (s : state) (ops : list op) : list (op * obs) :=
  match ops with
  | [] => []
  | o :: r => (o, snd (step s o)) :: trace (fst (step s o)) r
  end.

Definition private_wakers (ops : list op) : Prop :=
  forall f w, In (PollRecv f w) ops -> Nat.div w 2 = f.

Definition res_is (c : N) (ob : obs) : bool := N.eqb (hd 99%N (o_res ob)) c.
Definition res_arg (ob : obs) : N := nth 1 (o_res ob) 0%N.
Definition memN (v : N) (l : list N) : bool := existsb (N.eqb v) l.

(* ------------------------------------------------------------------------------------ *)
(* C12 as a monitor over the observable trace.
   [o_sent]  the value of the one successful send, if any;
   [o_done]  the channel is fulfilled (a send succeeded or it was closed): taken from the probe;
   [o_taken] single consumer: some receive already yielded the value;
   [o_pend]  per receive slot: latest waker if the future is pending, and whether that waker
             was woken since. *)
Record omon := mkOmon { o_sent : option N; o_done : bool; o_taken : bool;
                        o_pend : list (option N * bool); o_good : bool }.

Definition om_wake (wakes : list N) (x : option N * bool) : option N * bool :=
  match x with
  | (Some w, b) => (Some w, b || memN w wakes)
  | y => y
  end.

Definition omon_step (is_bcast : bool) (m : omon) (e : op * obs) : omon :=
  let '(o, ob) := e in
  let done' := negb (N.eqb (hd 0%N (o_probe ob)) 0) in
  let m1 :=
    match o with
    | Send v =>
        (* the first send on an open channel succeeds; every other one fails and returns its value *)
        if o_done m
        then mkOmon (o_sent m) (o_done m) (o_taken m) (o_pend m)
                    (o_good m && res_is R_ERR ob && N.eqb (res_arg ob) v)
        else mkOmon (Some v) (o_done m) (o_taken m) (o_pend m) (o_good m && res_is R_OK ob)
    | CreateRecv f | DropRecv f =>
        mkOmon (o_sent m) (o_done m) (o_taken m) (upd f (None, false) (o_pend m)) (o_good m)
    | PollRecv f w =>
        if res_is R_PENDING ob then
          (* a receive waits only while nothing was sent and the channel is open *)
          mkOmon (o_sent m) (o_done m) (o_taken m) (upd f (Some (nN w), false) (o_pend m))
                 (o_good m && negb (o_done m))
        else if res_is R_SOME ob then
          (* the value of the successful send; single consumer: at most one receive gets it *)
          mkOmon (o_sent m) (o_done m) true (upd f (None, false) (o_pend m))
                 (o_good m && match o_sent m with Some v => N.eqb v (res_arg ob) | None => false end
                  && (is_bcast || negb (o_taken m)))
        else if res_is R_NONE ob then
          (* None: closed without a value, or (single consumer) the value was already taken *)
          mkOmon (o_sent m) (o_done m) (o_taken m) (upd f (None, false) (o_pend m))
                 (o_good m && o_done m &&
                  match o_sent m with None => true | Some _ => negb is_bcast && o_taken m end)
        else m
    | _ => m
    end in
  let pend := map (om_wake (o_wake ob)) (o_pend m1) in
  (* every receiver pending at the moment of the send or close has been woken *)
  let all_woken := forallb (fun x => match x with (Some _, false) => false | _ => true end) pend in
  match o with
  | Teardown => mkOmon (o_sent m1) done' (o_taken m1) pend (o_good m1)
  | _ => mkOmon (o_sent m1) done' (o_taken m1) pend (o_good m1 && (negb done' || all_woken))
  end.

Definition oneshot_ok (k : nat) (is_bcast : bool) (tr : list (op * obs)) : bool :=
  o_good (fold_left (omon_step is_bcast) tr (mkOmon None false false (repeat (None, false) k) true)).

(* C11 (oneshot flavours): no implicit close while the sender and a receiver handle are alive *)
Record hmon := mkHmon { h_sender : bool; h_receivers : nat; h_explicit : bool; h_sent : bool; h_good : bool }.

Definition hmon_step (m : hmon) (e : list N * obs) : hmon :=
  let '(l, ob) := e in
  let done' := negb (N.eqb (hd 0%N (o_probe ob)) 0) in
  let m1 :=
    match l with
    | [0%N; _] => mkHmon (h_sender m) (h_receivers m) (h_explicit m) (h_sent m || res_is R_OK ob) (h_good m)
    | [1%N] => mkHmon (h_sender m) (h_receivers m) true (h_sent m) (h_good m)
    | [5%N] => mkHmon false (h_receivers m) (h_explicit m) (h_sent m) (h_good m)
    | [6%N] => mkHmon (h_sender m) (S (h_receivers m)) (h_explicit m) (h_sent m) (h_good m)
    | [9%N] => mkHmon (h_sender m) (pred (h_receivers m)) (h_explicit m) (h_sent m) (h_good m)
    | _ => m
    end in
  match l with
  | [20%N] => m1
  | _ =>
    mkHmon (h_sender m1) (h_receivers m1) (h_explicit m1) (h_sent m1)
           (h_good m1 &&
            (* closed implicitly exactly when a side has no handle left *)
            (h_explicit m1 || h_sent m1 ||
             Bool.eqb done' (negb (h_sender m1) || Nat.eqb (h_receivers m1) 0)))
  end.

Definition handles_ok (tr : list (list N * obs)) : bool :=
  h_good (fold_left hmon_step tr (mkHmon true 1 false false true)).

(* runs of the model on encoded operations with whole-call receiver drops (code 9; what the
   harness executes): every call respects the contract, the split sections 7 / 8 do not occur *)
Fixpoint mtrace (s : state) (ls : list (list N)) : list (list N * obs) :=
  match ls with
  | [] => []
  | l :: r => let '(s', ob) := mstep s l in (l, ob) :: mtrace s' r
  end.

Definition mlegal (s : state) (l : list N) : bool :=
  match l with
  | [9%N] => negb (gone s) && Nat.ltb 0 (receivers s)
  | [7%N] | [8%N] => false
  | _ => match decode l with Some o => legal s o | None => false end
  end.

Fixpoint mlegal_run (s : state) (ls : list (list N)) : bool :=
  match ls with
  | [] => true
  | l :: r => mlegal s l && mlegal_run (fst (mstep s l)) r
  end.

(* a whole receiver drop (code 9) reaches the monitor as one handle operation *)
Definition decode_mon (l : list N) : option op :=
  match l with
  | [9%N] => Some DropReceiverClose
  | _ => decode l
  end.

Definition dec_trace (tr : list (list N * obs)) : list (op * obs) :=
  flat_map (fun e => match decode_mon (fst e) with Some o => [(o, snd e)] | None => [] end) tr.

Definition monitor (which : N) (cfg : list N) (tr : list (list N * obs)) : bool :=
  match cfg with
  | k :: b :: _ =>
      match which with
      | 12%N => oneshot_ok (N.to_nat k) (negb (N.eqb b 0)) (dec_trace tr)
      (* C11 = handle lifecycle and the close clauses of the protocol monitor (a closing call
         leaves no receive future pending and unwoken; nothing is delivered after a close
         without a value) *)
      | 11%N => handles_ok tr && oneshot_ok (N.to_nat k) (negb (N.eqb b 0)) (dec_trace tr)
      | _ => true
      end
  | _ => true
  end.

Definition machine : Base.machine := mkMachine xstate minit xstep enabled (fun x => x) monitor.
