(* Model of src/channel/mpmc.rs + src/channel/channel_future.rs (ChannelState, send /
   receive futures, try_send / try_receive / close, shared sender / receiver handles).
   One [step] = one critical section (+ the wake of the single waker handed out of it). *)
From FI Require Export Base.

Inductive rst := RUnreg | RReg | RNotified.
Inductive sst := SUnreg | SReg | SComplete.

Record rfut := mkR {
  r_alive : bool; r_hp : bool; r_st : rst; r_task : option wid;
  (* ghost *) r_woken : bool; r_lastw : option wid
}.
Record sfut := mkS {
  s_alive : bool; s_hp : bool; s_st : sst; s_task : option wid; s_val : option tag;
  (* ghost *) s_woken : bool; s_lastw : option wid;
  s_tag : tag                (* ghost: the value this future was created with *)
}.
Definition rabsent : rfut := mkR false false RUnreg None false None.
Definition sabsent : sfut := mkS false false SUnreg None None false None 0%N.

Record state := mkState {
  closed : bool;
  cap : nat;
  buf : list tag;            (* head = oldest *)
  recvq : list fid;          (* head = newest *)
  sendq : list fid;          (* head = newest *)
  rfs : list rfut;
  sfs : list sfut;
  senders : nat;             (* shared flavour: live GenericSender handles *)
  receivers : nat;           (* shared flavour: live GenericReceiver handles *)
  pend_sclose : nat;         (* sender drops that saw count 1 and have not yet called close() *)
  pend_rclose : nat;         (* receiver drops that saw count 1 and have not yet called close() *)
  pend_clear : nat;          (* ... and have not yet called clear() *)
  explicit : bool;           (* ghost: close() was called explicitly *)
  gone : bool                (* everything torn down *)
}.

Inductive op :=
| CreateSend (f : fid) (v : tag) | PollSend (f : fid) (w : wid) | CancelSend (f : fid) | DropSend (f : fid)
| CreateRecv (f : fid) | PollRecv (f : fid) (w : wid) | DropRecv (f : fid)
| TrySend (v : tag) | TryRecv | Close
(* shared handles; the Drop* of a handle is split into its atomic sections *)
| CloneSender | DropSenderDec | DropSenderClose
| CloneReceiver | DropReceiverDec | DropReceiverClose | DropReceiverClear
| Teardown.

Definition getr (s : state) (f : fid) : rfut := nth f (rfs s) rabsent.
Definition gets (s : state) (f : fid) : sfut := nth f (sfs s) sabsent.

Definition init (kr ks c : nat) : state :=
  mkState false c [] [] [] (repeat rabsent kr) (repeat sabsent ks) 1 1 0 0 0 false false.

Definition legal (s : state) (o : op) : bool :=
  negb (gone s) &&
  match o with
  | CreateSend f _ => Nat.ltb f (length (sfs s)) && negb (s_alive (gets s f)) && Nat.ltb 0 (senders s)
  | PollSend f _ => s_alive (gets s f) && s_hp (gets s f)
  | CancelSend f | DropSend f => s_alive (gets s f)
  | CreateRecv f => Nat.ltb f (length (rfs s)) && negb (r_alive (getr s f)) && Nat.ltb 0 (receivers s)
  | PollRecv f _ => r_alive (getr s f) && r_hp (getr s f)
  | DropRecv f => r_alive (getr s f)
  | TrySend _ => Nat.ltb 0 (cap s) && Nat.ltb 0 (senders s)       (* try_send on capacity 0 is outside the contract *)
  | TryRecv => Nat.ltb 0 (receivers s)
  | Close => Nat.ltb 0 (senders s + receivers s)
  | CloneSender | DropSenderDec => Nat.ltb 0 (senders s)
  | DropSenderClose => Nat.ltb 0 (pend_sclose s)
  | CloneReceiver | DropReceiverDec => Nat.ltb 0 (receivers s)
  | DropReceiverClose => Nat.ltb 0 (pend_rclose s)
  | DropReceiverClear => Nat.ltb 0 (pend_clear s)
  | Teardown => true
  end.

Definition callable (s : state) (o : op) : bool :=
  negb (gone s) &&
  match o with
  | PollSend f _ => s_alive (gets s f)
  | PollRecv f _ => r_alive (getr s f)
  | _ => legal s o
  end.

(* ---- observation ---- *)
Definition V_DELIVERED : N := 1.
Definition V_BACK : N := 2.
Definition V_DROPPED : N := 3.

Definition rst_code (p : rst) : N := match p with RUnreg => 0 | RReg => 1 | RNotified => 2 end%N.
Definition sst_code (p : sst) : N := match p with SUnreg => 0 | SReg => 1 | SComplete => 2 end%N.
Definition rterm (x : rfut) : N := if r_alive x then (if r_hp x then 0 else 1)%N else 2%N.
Definition sterm (x : sfut) : N := if s_alive x then (if s_hp x then 0 else 1)%N else 2%N.

Definition snapshot (s : state) : list N :=
  flat_map (fun f => [nN f; rst_code (r_st (getr s f)); optN (r_task (getr s f))]) (recvq s)
  ++ [7777%N] ++
  flat_map (fun f => [nN f; sst_code (s_st (gets s f)); optN (s_task (gets s f));
                      match s_val (gets s f) with Some _ => 1%N | None => 0%N end]) (sendq s).

Definition mk_obs (s : state) (res : list N) (wakes : list wid) (vals : list N) : obs :=
  mkObs res (map nN wakes) vals
        [bN (closed s); nN (length (buf s))]
        (map sterm (sfs s) ++ map rterm (rfs s)) (snapshot s) 0.

Definition setr (s : state) (q : list fid) (fs : list rfut) : state :=
  mkState (closed s) (cap s) (buf s) q (sendq s) fs (sfs s) (senders s) (receivers s)
          (pend_sclose s) (pend_rclose s) (pend_clear s) (explicit s) (gone s).
Definition sets (s : state) (q : list fid) (fs : list sfut) : state :=
  mkState (closed s) (cap s) (buf s) (recvq s) q (rfs s) fs (senders s) (receivers s)
          (pend_sclose s) (pend_rclose s) (pend_clear s) (explicit s) (gone s).
Definition setbuf (s : state) (b : list tag) : state :=
  mkState (closed s) (cap s) b (recvq s) (sendq s) (rfs s) (sfs s) (senders s) (receivers s)
          (pend_sclose s) (pend_rclose s) (pend_clear s) (explicit s) (gone s).
Definition setcounts (s : state) (sn rn ps pr pc : nat) : state :=
  mkState (closed s) (cap s) (buf s) (recvq s) (sendq s) (rfs s) (sfs s) sn rn ps pr pc (explicit s) (gone s).

Definition woke_by (task lastw : option wid) : bool :=
  match task, lastw with Some w, Some w' => Nat.eqb w w' | _, _ => false end.
Definition wk_list (task : option wid) : list wid := match task with Some w => [w] | None => [] end.

(* return_oldest_receive_waiter: unlink the oldest receiver, mark it Notified, take its waker *)
Definition notify_oldest_recv (s : state) : state * list wid :=
  match olast (recvq s) with
  | None => (s, [])
  | Some f =>
      let x := getr s f in
      (setr s (removelast (recvq s))
            (upd f (mkR (r_alive x) (r_hp x) RNotified None (r_woken x || woke_by (r_task x) (r_lastw x)) (r_lastw x)) (rfs s)),
       wk_list (r_task x))
  end.

Definition can_push (s : state) : bool := negb (Nat.eqb (length (buf s)) (cap s)).

(* ChannelState::try_receive.  Returns the value (if any), the sender waker to wake, the state *)
Definition try_receive (s : state) : state * option tag * list wid :=
  match buf s with
  | v :: rest =>
      (* pop, then try_copy_value_from_oldest_waiter *)
      match olast (sendq s) with
      | None => (setbuf s rest, Some v, [])
      | Some g =>
          let y := gets s g in
          match s_val y with
          | None => (setbuf s rest, Some v, [])     (* expect("wait_node must contain value"): see Proofs, unreachable *)
          | Some sv =>
              let s1 := setbuf s (rest ++ [sv]) in
              (sets s1 (removelast (sendq s))
                    (upd g (mkS (s_alive y) (s_hp y) SComplete None None
                                (s_woken y || woke_by (s_task y) (s_lastw y)) (s_lastw y) (s_tag y)) (sfs s)),
               Some v, wk_list (s_task y))
          end
      end
  | [] =>
      (* try_take_value_from_sender *)
      match olast (sendq s) with
      | Some g =>
          let y := gets s g in
          (sets s (removelast (sendq s))
                (upd g (mkS (s_alive y) (s_hp y) SComplete None None
                            (s_woken y || woke_by (s_task y) (s_lastw y)) (s_lastw y) (s_tag y)) (sfs s)),
           s_val y, wk_list (s_task y))
      | None => (s, None, [])
      end
  end.

(* close(): reverse_drain both queues, receivers first *)
Fixpoint wake_recvs (fs : list rfut) (order : list fid) (acc : list wid) : list rfut * list wid :=
  match order with
  | [] => (fs, acc)
  | f :: r =>
      let x := nth f fs rabsent in
      wake_recvs (upd f (mkR (r_alive x) (r_hp x) RUnreg None (r_woken x || woke_by (r_task x) (r_lastw x)) (r_lastw x)) fs)
                 r (acc ++ wk_list (r_task x))
  end.
Fixpoint wake_sends (fs : list sfut) (order : list fid) (acc : list wid) : list sfut * list wid :=
  match order with
  | [] => (fs, acc)
  | f :: r =>
      let x := nth f fs sabsent in
      wake_sends (upd f (mkS (s_alive x) (s_hp x) SUnreg None (s_val x)
                             (s_woken x || woke_by (s_task x) (s_lastw x)) (s_lastw x) (s_tag x)) fs)
                 r (acc ++ wk_list (s_task x))
  end.

Definition do_close (s : state) (expl : bool) : state * bool * list wid :=
  if closed s then (s, false, [])
  else
    let '(rf', wk1) := wake_recvs (rfs s) (rev (recvq s)) [] in
    let '(sf', wk2) := wake_sends (sfs s) (rev (sendq s)) wk1 in
    (mkState true (cap s) (buf s) [] [] rf' sf' (senders s) (receivers s)
             (pend_sclose s) (pend_rclose s) (pend_clear s) (explicit s || expl) (gone s), true, wk2).

Definition vals_of (k : N) (l : list tag) : list N := flat_map (fun v => [k; v]) l.

Definition step (s : state) (o : op) : state * obs :=
  match o with
  | CreateSend f v =>
      let s' := sets s (sendq s) (upd f (mkS true true SUnreg None (Some v) false None v) (sfs s)) in
      (s', mk_obs s' [R_UNIT] [] [])
  | PollSend f w =>
      let x := gets s f in
      if negb (s_hp x) then (s, mk_obs s [R_PANIC] [] [])
      else match s_st x with
      | SUnreg =>
          if closed s then
            let s' := sets s (sendq s) (upd f (mkS true false SUnreg (s_task x) None false (Some w) (s_tag x)) (sfs s)) in
            match s_val x with
            | Some v => (s', mk_obs s' [R_ERR; v] [] [V_BACK; v])
            | None => (s', mk_obs s' [R_OK] [] [])
            end
          else if negb (can_push s) then
            if memb f (sendq s) then (s, mk_obs s [R_UB] [] [])
            else
              let s1 := sets s (f :: sendq s)
                          (upd f (mkS true true SReg (Some w) (s_val x) false (Some w) (s_tag x)) (sfs s)) in
              let '(s', wk) := notify_oldest_recv s1 in
              (s', mk_obs s' [R_PENDING] wk [])
          else
            match s_val x with
            | None => (s, mk_obs s [R_PANIC] [] [])       (* expect("wait_node must contain value") *)
            | Some v =>
                let s1 := sets (setbuf s (buf s ++ [v])) (sendq s)
                            (upd f (mkS true false SUnreg (s_task x) None false (Some w) (s_tag x)) (sfs s)) in
                let '(s', wk) := notify_oldest_recv s1 in
                (s', mk_obs s' [R_OK] wk [])
            end
      | SReg =>
          let s' := sets s (sendq s) (upd f (mkS true true SReg (Some w) (s_val x) false (Some w) (s_tag x)) (sfs s)) in
          (s', mk_obs s' [R_PENDING] [] [])
      | SComplete =>
          let s' := sets s (sendq s) (upd f (mkS true false SComplete (s_task x) (s_val x) false (Some w) (s_tag x)) (sfs s)) in
          (s', mk_obs s' [R_OK] [] [])
      end
  | CancelSend f =>
      let x := gets s f in
      if negb (s_hp x) then (s, mk_obs s [R_NONE] [] [])
      else
        let q := match s_st x with SReg => remove f (sendq s) | _ => sendq s end in
        let st' := match s_st x with SReg => SUnreg | p => p end in
        if (match s_st x with SReg => negb (memb f (sendq s)) | _ => false end) then (s, mk_obs s [R_PANIC] [] [])
        else
          let s' := sets s q (upd f (mkS true false st' (s_task x) None false (s_lastw x) (s_tag x)) (sfs s)) in
          match s_val x with
          | Some v => (s', mk_obs s' [R_SOME; v] [] [V_BACK; v])
          | None => (s', mk_obs s' [R_NONE] [] [])
          end
  | DropSend f =>
      let x := gets s f in
      let q := if s_hp x then match s_st x with SReg => remove f (sendq s) | _ => sendq s end else sendq s in
      if (s_hp x && match s_st x with SReg => negb (memb f (sendq s)) | _ => false end)%bool
      then (s, mk_obs s [R_PANIC] [] [])
      else
        let s' := sets s q (upd f sabsent (sfs s)) in
        (s', mk_obs s' [R_UNIT] [] (match s_val x with Some v => [V_DROPPED; v] | None => [] end))
  | CreateRecv f =>
      let s' := setr s (recvq s) (upd f (mkR true true RUnreg None false None) (rfs s)) in
      (s', mk_obs s' [R_UNIT] [] [])
  | PollRecv f w =>
      let x := getr s f in
      if negb (r_hp x) then (s, mk_obs s [R_PANIC] [] [])
      else match r_st x with
      | RUnreg | RNotified =>
          let '(s1, ov, wk) := try_receive s in
          match ov with
          | Some v =>
              let s' := setr s1 (recvq s1) (upd f (mkR true false RUnreg (r_task x) false (Some w)) (rfs s1)) in
              (s', mk_obs s' [R_SOME; v] wk [V_DELIVERED; v])
          | None =>
              if closed s then
                let s' := setr s (recvq s) (upd f (mkR true false RUnreg (r_task x) false (Some w)) (rfs s)) in
                (s', mk_obs s' [R_NONE] [] [])
              else if memb f (recvq s) then (s, mk_obs s [R_UB] [] [])
              else
                let s' := setr s (f :: recvq s) (upd f (mkR true true RReg (Some w) false (Some w)) (rfs s)) in
                (s', mk_obs s' [R_PENDING] [] [])
          end
      | RReg =>
          let s' := setr s (recvq s) (upd f (mkR true true RReg (Some w) false (Some w)) (rfs s)) in
          (s', mk_obs s' [R_PENDING] [] [])
      end
  | DropRecv f =>
      let x := getr s f in
      if r_hp x then
        match r_st x with
        | RReg =>
            if memb f (recvq s) then
              let s' := setr s (remove f (recvq s)) (upd f rabsent (rfs s)) in (s', mk_obs s' [R_UNIT] [] [])
            else (s, mk_obs s [R_PANIC] [] [])
        | RNotified =>
            (* pass the notification on *)
            let '(s', wk) := notify_oldest_recv (setr s (recvq s) (upd f rabsent (rfs s))) in
            (s', mk_obs s' [R_UNIT] wk [])
        | RUnreg => let s' := setr s (recvq s) (upd f rabsent (rfs s)) in (s', mk_obs s' [R_UNIT] [] [])
        end
      else let s' := setr s (recvq s) (upd f rabsent (rfs s)) in (s', mk_obs s' [R_UNIT] [] [])
  | TrySend v =>
      if closed s then (s, mk_obs s [R_ERR; 1%N; v] [] [V_BACK; v])
      else if can_push s then
        let '(s', wk) := notify_oldest_recv (setbuf s (buf s ++ [v])) in
        (s', mk_obs s' [R_OK] wk [])
      else (s, mk_obs s [R_ERR; 2%N; v] [] [V_BACK; v])
  | TryRecv =>
      let '(s', ov, wk) := try_receive s in
      match ov with
      | Some v => (s', mk_obs s' [R_SOME; v] wk [V_DELIVERED; v])
      | None => (s, mk_obs s [R_ERR; if closed s then 1%N else 2%N] [] [])
      end
  | Close =>
      let '(s', newly, wk) := do_close s true in (s', mk_obs s' [Rbool newly] wk [])
  | CloneSender =>
      let s' := setcounts s (S (senders s)) (receivers s) (pend_sclose s) (pend_rclose s) (pend_clear s) in
      (s', mk_obs s' [R_UNIT] [] [])
  | DropSenderDec =>
      (* fetch_sub(1) != 1 => return; otherwise close() follows *)
      let last := Nat.eqb (senders s) 1 in
      let s' := setcounts s (pred (senders s)) (receivers s)
                  (if last then S (pend_sclose s) else pend_sclose s) (pend_rclose s) (pend_clear s) in
      (s', mk_obs s' [Rbool last] [] [])
  | DropSenderClose =>
      let s1 := setcounts s (senders s) (receivers s) (pred (pend_sclose s)) (pend_rclose s) (pend_clear s) in
      let '(s', newly, wk) := do_close s1 false in (s', mk_obs s' [Rbool newly] wk [])
  | CloneReceiver =>
      let s' := setcounts s (senders s) (S (receivers s)) (pend_sclose s) (pend_rclose s) (pend_clear s) in
      (s', mk_obs s' [R_UNIT] [] [])
  | DropReceiverDec =>
      let last := Nat.eqb (receivers s) 1 in
      let s' := setcounts s (senders s) (pred (receivers s)) (pend_sclose s)
                  (if last then S (pend_rclose s) else pend_rclose s) (pend_clear s) in
      (s', mk_obs s' [Rbool last] [] [])
  | DropReceiverClose =>
      let s1 := setcounts s (senders s) (receivers s) (pend_sclose s) (pred (pend_rclose s)) (S (pend_clear s)) in
      let '(s', newly, wk) := do_close s1 false in (s', mk_obs s' [Rbool newly] wk [])
  | DropReceiverClear =>
      (* ChannelState::clear(): pop everything *)
      let s1 := setcounts s (senders s) (receivers s) (pend_sclose s) (pend_rclose s) (pred (pend_clear s)) in
      let s' := setbuf s1 [] in
      (s', mk_obs s' [R_UNIT] [] (vals_of V_DROPPED (buf s)))
  | Teardown =>
      (* the client drops every future, handle and the channel; only the set of values
         destroyed is observed (sorted by the harness and here) *)
      let parked := flat_map (fun x => match s_val x with Some v => if s_alive x then [v] else [] | None => [] end) (sfs s) in
      let s' := mkState (closed s) (cap s) [] [] [] (map (fun _ => rabsent) (rfs s)) (map (fun _ => sabsent) (sfs s))
                        0 0 0 0 0 (explicit s) true in
      (s', mkObs [R_UNIT] [] (vals_of V_DROPPED (sortN (buf s ++ parked))) [] [] [] 0)
  end.

Inductive Reach (kr ks c : nat) : state -> Prop :=
| reach_init : Reach kr ks c (init kr ks c)
| reach_step s o : Reach kr ks c s -> legal s o = true -> Reach kr ks c (fst (step s o)).

(* ---------------------------------------------------------------------- *)
(* numeric encoding.  Handle drops are offered to the harness as whole calls:
   14 = drop(sender) = Dec ; Close-if-last      16 = drop(receiver) = Dec ; Close ; Clear if last *)
Definition decode (l : list N) : option op :=
  match l with
  | [0; f; v] => Some (CreateSend (N.to_nat f) v)
  | [1; f; w] => Some (PollSend (N.to_nat f) (N.to_nat w))
  | [2; f] => Some (CancelSend (N.to_nat f))
  | [3; f] => Some (DropSend (N.to_nat f))
  | [4; f] => Some (CreateRecv (N.to_nat f))
  | [5; f; w] => Some (PollRecv (N.to_nat f) (N.to_nat w))
  | [6; f] => Some (DropRecv (N.to_nat f))
  | [7; v] => Some (TrySend v)
  | [8] => Some TryRecv
  | [9] => Some Close
  | [10] => Some CloneSender
  | [11] => Some DropSenderDec
  | [12] => Some DropSenderClose
  | [13] => Some CloneReceiver
  | [17] => Some DropReceiverDec
  | [18] => Some DropReceiverClose
  | [19] => Some DropReceiverClear
  | [20] => Some Teardown
  | _ => None
  end%N.

Definition encode (o : op) : list N :=
  match o with
  | CreateSend f v => [0; nN f; v]
  | PollSend f w => [1; nN f; nN w]
  | CancelSend f => [2; nN f]
  | DropSend f => [3; nN f]
  | CreateRecv f => [4; nN f]
  | PollRecv f w => [5; nN f; nN w]
  | DropRecv f => [6; nN f]
  | TrySend v => [7; v]
  | TryRecv => [8]
  | Close => [9]
  | CloneSender => [10]
  | DropSenderDec => [11]
  | DropSenderClose => [12]
  | CloneReceiver => [13]
  | DropReceiverDec => [17]
  | DropReceiverClose => [18]
  | DropReceiverClear => [19]
  | Teardown => [20]
  end%N.

Definition bad_obs : obs := mkObs [R_BADOP] [] [] [] [] [] 0.

Definition step_c (s : state) (o : op) : state * obs :=
  if callable s o then step s o else (s, bad_obs).

(* sequential composition of sections of one call: results, wakes and value movements are
   concatenated, probes are those after the last section *)
Definition seq_obs (a b : obs) : obs :=
  mkObs (o_res a ++ o_res b) (o_wake a ++ o_wake b) (o_val a ++ o_val b)
        (o_probe b) (o_term b) (o_queue b) (o_alloc a + o_alloc b).

(* the caller cannot see whether it held the last handle, only whether the channel got closed *)
Definition with_res (r : list N) (o : obs) : obs :=
  mkObs r (o_wake o) (o_val o) (o_probe o) (o_term o) (o_queue o) (o_alloc o).

Definition drop_sender (s : state) : state * obs :=
  let '(s1, o1) := step_c s DropSenderDec in
  if Nat.ltb 0 (pend_sclose s1) then
    let '(s2, o2) := step_c s1 DropSenderClose in (s2, with_res (o_res o2) (seq_obs o1 o2))
  else (s1, with_res [R_FALSE] o1).

Definition drop_receiver (s : state) : state * obs :=
  let '(s1, o1) := step_c s DropReceiverDec in
  if Nat.ltb 0 (pend_rclose s1) then
    let '(s2, o2) := step_c s1 DropReceiverClose in
    let '(s3, o3) := step_c s2 DropReceiverClear in (s3, with_res (o_res o2) (seq_obs (seq_obs o1 o2) o3))
  else (s1, with_res [R_FALSE] o1).

Definition mstep (s : state) (l : list N) : state * obs :=
  match l with
  | [14%N] => if negb (gone s) && Nat.ltb 0 (senders s) then drop_sender s else (s, bad_obs)
  | [16%N] => if negb (gone s) && Nat.ltb 0 (receivers s) then drop_receiver s else (s, bad_obs)
  | _ => match decode l with
         | Some o => step_c s o
         | None => (s, bad_obs)
         end
  end.

(* cfg = [receive slots; send slots; capacity; shared (0/1); max handles per side] *)
Record xstate := mkX { xs : state; x_shared : bool; x_maxh : nat }.

Definition minit (cfg : list N) : xstate :=
  match cfg with
  | [kr; ks; c; sh; mh] => mkX (init (N.to_nat kr) (N.to_nat ks) (N.to_nat c)) (negb (N.eqb sh 0)) (N.to_nat mh)
  | _ => mkX (init 0 0 0) false 0
  end.

Definition xstep (x : xstate) (l : list N) : xstate * obs :=
  let '(s', ob) := mstep (xs x) l in (mkX s' (x_shared x) (x_maxh x), ob).

(* values in flight: buffered or still inside a live send future *)
Definition in_flight (s : state) : list tag :=
  buf s ++ flat_map (fun x => match s_val x with Some v => if s_alive x then [v] else [] | None => [] end) (sfs s).

Fixpoint fresh_tag (fuel : nat) (v : N) (used : list tag) : tag :=
  match fuel with
  | O => v
  | S k => if existsb (N.eqb v) used then fresh_tag k (v + 1)%N used else v
  end.

Definition enabled (x : xstate) : list (list N) :=
  let s := xs x in
  if gone s then [] else
  let used := in_flight s ++ flat_map (fun y => if s_alive y then [s_tag y] else []) (sfs s) in
  let v := fresh_tag (S (length used)) 1%N used in
  flat_map (fun f =>
     let y := gets s f in
     if s_alive y then
       (* cancel() is also offered on a completed send future (it returns None and changes nothing) *)
       (if s_hp y then [encode (PollSend f (64 + 2 * f)); encode (PollSend f (65 + 2 * f)); encode (CancelSend f)]
        else [encode (CancelSend f)])
       ++ [encode (DropSend f)]
     else if Nat.ltb 0 (senders s) then [encode (CreateSend f v)] else []) (seq 0 (length (sfs s)))
  ++ flat_map (fun f =>
     let y := getr s f in
     if r_alive y then
       (if r_hp y then [encode (PollRecv f (2 * f)); encode (PollRecv f (2 * f + 1))] else [])
       ++ [encode (DropRecv f)]
     else if Nat.ltb 0 (receivers s) then [encode (CreateRecv f)] else []) (seq 0 (length (rfs s)))
  ++ (if Nat.ltb 0 (cap s) && Nat.ltb 0 (senders s) then [encode (TrySend v)] else [])
  ++ (if Nat.ltb 0 (receivers s) then [encode TryRecv] else [])
  ++ (if Nat.ltb 0 (senders s + receivers s) then [encode Close] else [])
  ++ (if x_shared x then
        (if Nat.ltb 0 (senders s) && Nat.ltb (senders s) (x_maxh x) then [[10%N]] else [])
        ++ (if Nat.ltb 0 (senders s) then [[14%N]] else [])
        ++ (if Nat.ltb 0 (receivers s) && Nat.ltb (receivers s) (x_maxh x) then [[13%N]] else [])
        ++ (if Nat.ltb 0 (receivers s) then [[16%N]] else [])
      else [])
  ++ [encode Teardown].
