(* Model of src/channel/state_broadcast.rs (ChannelState, StateReceiveFuture, shared
   sender / receiver handles). *)
From FI Require Export Base.

Inductive rst := RUnreg | RReg.

Record rfut := mkR {
  r_alive : bool; r_hp : bool; r_st : rst; r_task : option wid; r_id : N;   (* requested StateId *)
  (* ghost *) r_woken : bool; r_lastw : option wid
}.
Definition rabsent : rfut := mkR false false RUnreg None 0 false None.

Definition MAXID : N := 18446744073709551615.   (* u64::MAX *)

Record state := mkState {
  closed : bool;
  state_id : N;
  value : option tag;
  waiters : list fid;        (* head = newest *)
  rfs : list rfut;
  senders : nat; receivers : nat;
  pend_sclose : nat; pend_rclose : nat;
  explicit : bool;           (* ghost: close() was called explicitly *)
  gone : bool
}.

Inductive op :=
| Send (v : tag) | Close | TryReceive (i : N)
| CreateRecv (f : fid) (i : N) | PollRecv (f : fid) (w : wid) | DropRecv (f : fid)
| CloneSender | DropSenderDec | DropSenderClose
| CloneReceiver | DropReceiverDec | DropReceiverClose
| SetId (n : N)              (* verification hook: preset the id *)
| Teardown.

Definition getr (s : state) (f : fid) : rfut := nth f (rfs s) rabsent.

Definition init (k : nat) : state := mkState false 0 None [] (repeat rabsent k) 1 1 0 0 false false.

Definition legal (s : state) (o : op) : bool :=
  negb (gone s) &&
  match o with
  | Send _ => Nat.ltb 0 (senders s)
  | Close => true
  | TryReceive i => Nat.ltb 0 (receivers s) && N.leb i MAXID
  | CreateRecv f i => Nat.ltb f (length (rfs s)) && negb (r_alive (getr s f)) && Nat.ltb 0 (receivers s) && N.leb i MAXID
  | PollRecv f _ => r_alive (getr s f) && r_hp (getr s f)
  | DropRecv f => r_alive (getr s f)
  | CloneSender | DropSenderDec => Nat.ltb 0 (senders s)
  | DropSenderClose => Nat.ltb 0 (pend_sclose s)
  | CloneReceiver | DropReceiverDec => Nat.ltb 0 (receivers s)
  | DropReceiverClose => Nat.ltb 0 (pend_rclose s)
  | SetId n => N.leb (state_id s) n && N.leb n MAXID && match waiters s with [] => true | _ => false end
  | Teardown => true
  end.

Definition callable (s : state) (o : op) : bool :=
  negb (gone s) &&
  match o with
  | PollRecv f _ => r_alive (getr s f)
  | _ => legal s o
  end.

Definition V_DELIVERED : N := 1.
Definition V_BACK : N := 2.
Definition V_DROPPED : N := 3.

Definition rst_code (p : rst) : N := match p with RUnreg => 0 | RReg => 1 end%N.
Definition rterm (x : rfut) : N := if r_alive x then (if r_hp x then 0 else 1)%N else 2%N.

Definition snapshot (s : state) : list N :=
  flat_map (fun f => [nN f; rst_code (r_st (getr s f)); optN (r_task (getr s f))]) (waiters s).

Definition mk_obs (s : state) (res : list N) (wakes : list wid) (vals : list N) : obs :=
  mkObs res (map nN wakes) vals
        [bN (closed s); state_id s; match value s with Some _ => 1%N | None => 0%N end]
        (map rterm (rfs s)) (snapshot s) 0.

Definition woke_by (task lastw : option wid) : bool :=
  match task, lastw with Some w, Some w' => Nat.eqb w w' | _, _ => false end.
Definition wk_list (task : option wid) : list wid := match task with Some w => [w] | None => [] end.

Fixpoint wake_all (fs : list rfut) (order : list fid) (acc : list wid) : list rfut * list wid :=
  match order with
  | [] => (fs, acc)
  | f :: r =>
      let x := nth f fs rabsent in
      wake_all (upd f (mkR (r_alive x) (r_hp x) RUnreg None (r_id x)
                           (r_woken x || woke_by (r_task x) (r_lastw x)) (r_lastw x)) fs)
               r (acc ++ wk_list (r_task x))
  end.

Definition with_rfs (s : state) (q : list fid) (fs : list rfut) : state :=
  mkState (closed s) (state_id s) (value s) q fs (senders s) (receivers s) (pend_sclose s) (pend_rclose s)
          (explicit s) (gone s).
Definition with_counts (s : state) (sn rn ps pr : nat) : state :=
  mkState (closed s) (state_id s) (value s) (waiters s) (rfs s) sn rn ps pr (explicit s) (gone s).

Definition do_close (s : state) (expl : bool) : state * bool * list wid :=
  if closed s then (s, false, [])
  else
    let '(fs', wk) := wake_all (rfs s) (rev (waiters s)) [] in
    (mkState true (state_id s) (value s) [] fs' (senders s) (receivers s) (pend_sclose s) (pend_rclose s)
             (explicit s || expl) (gone s), true, wk).

(* the value a receiver asking for something newer than [i] gets *)
Definition deliverable (s : state) (i : N) : option tag :=
  match value s with
  | Some v => if N.ltb i (state_id s) then Some v else None
  | None => None
  end.

Definition step (s : state) (o : op) : state * obs :=
  match o with
  | Send v =>
      if closed s || N.eqb (state_id s) MAXID then (s, mk_obs s [R_ERR; v] [] [V_BACK; v])
      else
        let '(fs', wk) := wake_all (rfs s) (rev (waiters s)) [] in
        let s' := mkState (closed s) (state_id s + 1) (Some v) [] fs' (senders s) (receivers s)
                          (pend_sclose s) (pend_rclose s) (explicit s) (gone s) in
        (s', mk_obs s' [R_OK] wk (match value s with Some old => [V_DROPPED; old] | None => [] end))
  | Close =>
      let '(s', newly, wk) := do_close s true in (s', mk_obs s' [Rbool newly] wk [])
  | TryReceive i =>
      match deliverable s i with
      | Some v => (s, mk_obs s [R_SOME; state_id s; v] [] [V_DELIVERED; v])
      | None => (s, mk_obs s [R_NONE] [] [])
      end
  | CreateRecv f i =>
      let s' := with_rfs s (waiters s) (upd f (mkR true true RUnreg None i false None) (rfs s)) in
      (s', mk_obs s' [R_UNIT] [] [])
  | PollRecv f w =>
      let x := getr s f in
      if negb (r_hp x) then (s, mk_obs s [R_PANIC] [] [])
      else match r_st x with
      | RUnreg =>
          match deliverable s (r_id x) with
          | Some v =>
              let s' := with_rfs s (waiters s) (upd f (mkR true false RUnreg (r_task x) (r_id x) false (Some w)) (rfs s)) in
              (s', mk_obs s' [R_SOME; state_id s; v] [] [V_DELIVERED; v])
          | None =>
              if closed s then
                let s' := with_rfs s (waiters s) (upd f (mkR true false RUnreg (r_task x) (r_id x) false (Some w)) (rfs s)) in
                (s', mk_obs s' [R_NONE] [] [])
              else if memb f (waiters s) then (s, mk_obs s [R_UB] [] [])
              else
                let s' := with_rfs s (f :: waiters s) (upd f (mkR true true RReg (Some w) (r_id x) false (Some w)) (rfs s)) in
                (s', mk_obs s' [R_PENDING] [] [])
          end
      | RReg =>
          let s' := with_rfs s (waiters s) (upd f (mkR true true RReg (Some w) (r_id x) false (Some w)) (rfs s)) in
          (s', mk_obs s' [R_PENDING] [] [])
      end
  | DropRecv f =>
      let x := getr s f in
      if r_hp x then
        match r_st x with
        | RReg =>
            if memb f (waiters s) then
              let s' := with_rfs s (remove f (waiters s)) (upd f rabsent (rfs s)) in (s', mk_obs s' [R_UNIT] [] [])
            else (s, mk_obs s [R_PANIC] [] [])
        | RUnreg => let s' := with_rfs s (waiters s) (upd f rabsent (rfs s)) in (s', mk_obs s' [R_UNIT] [] [])
        end
      else let s' := with_rfs s (waiters s) (upd f rabsent (rfs s)) in (s', mk_obs s' [R_UNIT] [] [])
  | CloneSender =>
      let s' := with_counts s (S (senders s)) (receivers s) (pend_sclose s) (pend_rclose s) in (s', mk_obs s' [R_UNIT] [] [])
  | DropSenderDec =>
      let last := Nat.eqb (senders s) 1 in
      let s' := with_counts s (pred (senders s)) (receivers s) (if last then S (pend_sclose s) else pend_sclose s) (pend_rclose s) in
      (s', mk_obs s' [Rbool last] [] [])
  | DropSenderClose =>
      let '(s', newly, wk) := do_close (with_counts s (senders s) (receivers s) (pred (pend_sclose s)) (pend_rclose s)) false in
      (s', mk_obs s' [Rbool newly] wk [])
  | CloneReceiver =>
      let s' := with_counts s (senders s) (S (receivers s)) (pend_sclose s) (pend_rclose s) in (s', mk_obs s' [R_UNIT] [] [])
  | DropReceiverDec =>
      let last := Nat.eqb (receivers s) 1 in
      let s' := with_counts s (senders s) (pred (receivers s)) (pend_sclose s) (if last then S (pend_rclose s) else pend_rclose s) in
      (s', mk_obs s' [Rbool last] [] [])
  | DropReceiverClose =>
      let '(s', newly, wk) := do_close (with_counts s (senders s) (receivers s) (pend_sclose s) (pred (pend_rclose s))) false in
      (s', mk_obs s' [Rbool newly] wk [])
  | SetId n =>
      let s' := mkState (closed s) n (value s) (waiters s) (rfs s) (senders s) (receivers s)
                        (pend_sclose s) (pend_rclose s) (explicit s) (gone s) in
      (s', mk_obs s' [R_UNIT] [] [])
  | Teardown =>
      let s' := mkState (closed s) (state_id s) None [] (map (fun _ => rabsent) (rfs s)) 0 0 0 0 (explicit s) true in
      (s', mkObs [R_UNIT] [] (match value s with Some v => [V_DROPPED; v] | None => [] end) [] [] [] 0)
  end.

Inductive Reach (k : nat) : state -> Prop :=
| reach_init : Reach k (init k)
| reach_step s o : Reach k s -> legal s o = true -> Reach k (fst (step s o)).

(* ---------------------------------------------------------------------- *)
Definition decode (l : list N) : option op :=
  match l with
  | [0; v] => Some (Send v)
  | [1] => Some Close
  | [2; i] => Some (TryReceive i)
  | [3; f; i] => Some (CreateRecv (N.to_nat f) i)
  | [4; f; w] => Some (PollRecv (N.to_nat f) (N.to_nat w))
  | [5; f] => Some (DropRecv (N.to_nat f))
  | [6] => Some CloneSender
  | [7] => Some DropSenderDec
  | [8] => Some DropSenderClose
  | [10] => Some CloneReceiver
  | [11] => Some DropReceiverDec
  | [12] => Some DropReceiverClose
  | [15; n] => Some (SetId n)
  | [20] => Some Teardown
  | _ => None
  end%N.

Definition encode (o : op) : list N :=
  match o with
  | Send v => [0; v]
  | Close => [1]
  | TryReceive i => [2; i]
  | CreateRecv f i => [3; nN f; i]
  | PollRecv f w => [4; nN f; nN w]
  | DropRecv f => [5; nN f]
  | CloneSender => [6]
  | DropSenderDec => [7]
  | DropSenderClose => [8]
  | CloneReceiver => [10]
  | DropReceiverDec => [11]
  | DropReceiverClose => [12]
  | SetId n => [15; n]
  | Teardown => [20]
  end%N.

Definition bad_obs : obs := mkObs [R_BADOP] [] [] [] [] [] 0.
Definition step_c (s : state) (o : op) : state * obs := if callable s o then step s o else (s, bad_obs).
Definition seq_obs (a b : obs) : obs :=
  mkObs (o_res a ++ o_res b) (o_wake a ++ o_wake b) (o_val a ++ o_val b)
        (o_probe b) (o_term b) (o_queue b) (o_alloc a + o_alloc b).
Definition with_res (r : list N) (o : obs) : obs :=
  mkObs r (o_wake o) (o_val o) (o_probe o) (o_term o) (o_queue o) (o_alloc o).

(* codes 9 / 13 = drop(sender) / drop(receiver) as one call *)
Definition drop_sender (s : state) : state * obs :=
  let '(s1, o1) := step_c s DropSenderDec in
  if Nat.ltb 0 (pend_sclose s1) then let '(s2, o2) := step_c s1 DropSenderClose in (s2, with_res (o_res o2) (seq_obs o1 o2))
  else (s1, with_res [R_FALSE] o1).
Definition drop_receiver (s : state) : state * obs :=
  let '(s1, o1) := step_c s DropReceiverDec in
  if Nat.ltb 0 (pend_rclose s1) then let '(s2, o2) := step_c s1 DropReceiverClose in (s2, with_res (o_res o2) (seq_obs o1 o2))
  else (s1, with_res [R_FALSE] o1).

Definition mstep (s : state) (l : list N) : state * obs :=
  match l with
  | [9%N] => if negb (gone s) && Nat.ltb 0 (senders s) then drop_sender s else (s, bad_obs)
  | [13%N] => if negb (gone s) && Nat.ltb 0 (receivers s) then drop_receiver s else (s, bad_obs)
  | _ => match decode l with
         | Some o => step_c s o
         | None => (s, bad_obs)
         end
  end.

(* cfg = [slots; shared; max handles per side; max sends] *)
Record xstate := mkX { xs : state; x_shared : bool; x_maxh : nat; x_maxsend : nat; x_sent : nat }.

Definition minit (cfg : list N) : xstate :=
  match cfg with
  | [k; sh; mh; ms] => mkX (init (N.to_nat k)) (negb (N.eqb sh 0)) (N.to_nat mh) (N.to_nat ms) 0
  | _ => mkX (init 0) false 0 0 0
  end.

Definition xstep (x : xstate) (l : list N) : xstate * obs :=
  let '(s', ob) := mstep (xs x) l in
  (mkX s' (x_shared x) (x_maxh x) (x_maxsend x) (match l with [0%N; _] => S (x_sent x) | _ => x_sent x end), ob).

Definition enabled (x : xstate) : list (list N) :=
  let s := xs x in
  if gone s then [] else
  (* requested ids: the initial id, the current one, and one AHEAD of the channel (a StateId is
     an opaque public value; it may come from another channel instance) *)
  let ids := (if N.eqb (state_id s) 0 then [0%N] else [0%N; state_id s])
             ++ (if N.ltb (state_id s) MAXID then [state_id s + 1] else [])%N in
  (if Nat.ltb 0 (senders s) && Nat.ltb (x_sent x) (x_maxsend x) then [encode (Send (N.of_nat (S (x_sent x))))] else [])
  ++ (if x_shared x then [] else [encode Close])
  ++ (if Nat.ltb 0 (receivers s) then map (fun i => encode (TryReceive i)) ids else [])
  ++ flat_map (fun f =>
       let y := getr s f in
       if r_alive y then
         (if r_hp y then [encode (PollRecv f (2 * f)); encode (PollRecv f (2 * f + 1))] else []) ++ [encode (DropRecv f)]
       else if Nat.ltb 0 (receivers s) then map (fun i => encode (CreateRecv f i)) ids else []) (seq 0 (length (rfs s)))
  ++ (if x_shared x then
        (if Nat.ltb 0 (senders s) && Nat.ltb (senders s) (x_maxh x) then [encode CloneSender] else [])
        ++ (if Nat.ltb 0 (senders s) then [[9%N]] else [])
        ++ (if Nat.ltb 0 (receivers s) && Nat.ltb (receivers s) (x_maxh x) then [encode CloneReceiver] else [])
        ++ (if Nat.ltb 0 (receivers s) then [[13%N]] else [])
      else [])
  ++ [encode Teardown].
