(* Extraction of the executable models for the correspondence check.
   ExtrOcamlBasic only: bool/option/unit/list/prod/sumbool/sumor map to OCaml's own
   types; nat, positive, N, Z stay Coq inductives.  No Extract Constant. *)
Require Extraction.
Require Import ExtrOcamlBasic.
From FI Require Import Base.
From FI Require Event EventSpec Mutex MutexSpec Semaphore SemaphoreSpec Mpmc MpmcSpec MpmcStream Oneshot OneshotSpec StateBcast StateBcastSpec Timer TimerSpec RingBuf DList PHeapPtr.
Extraction Language OCaml.
Separate Extraction
  Base.m_run Base.mkMachine
  BinNat.N.div_eucl BinNat.N.mul BinNat.N.add BinNat.N.of_nat BinNat.N.to_nat
  EventSpec.machine MutexSpec.machine SemaphoreSpec.machine MpmcStream.machine OneshotSpec.machine StateBcastSpec.machine TimerSpec.machine RingBuf.machine DList.machine PHeapPtr.machine.
