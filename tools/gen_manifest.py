#!/usr/bin/env python3
"""Regenerates MANIFEST.json from tools/registry.py (checks) and the hook commits in /repo."""
import json, os, subprocess, sys
ROOT = os.path.dirname(os.path.dirname(os.path.abspath(__file__)))
sys.path.insert(0, os.path.join(ROOT, "tools"))
from registry import PROPS
ALL = [f"C{i:02d}" for i in range(1, 21)]

def hook_commits():
    out = subprocess.run("git -C /repo log --format=%H%x09%s", shell=True, capture_output=True, text=True).stdout
    return [l.split("\t")[0] for l in out.splitlines() if "\t" in l and l.split("\t")[1].startswith("verif hooks")]

checks = []
for pid in ALL:
    if pid not in PROPS:
        continue
    p = PROPS[pid]
    checks.append(dict(
        property_id=pid,
        quick_cmd=f"./check {pid} --tier quick",
        thorough_cmd=f"./check {pid} --tier thorough",
        evidence_file=f"/verif/evidence/{pid}.json",
        replay_cmd_template="python3 tools/replay.py {path}",
        engine="coq-proof+correspondence",
        level_claimed=dict(category=p["level"], text=p.get("level_text", ""), design_ref=p.get("design_ref", "DESIGN.md section 3, " + pid)),
        level_note=p.get("level_note", ""),
        technique=p.get("technique", "machine-checked proof in Coq 8.16 over a Gallina model + checked model/implementation correspondence"),
    ))
na = [dict(property_id=pid, reason="check not built yet in this revision (work in progress; no technique switch intended)") for pid in ALL if pid not in PROPS]
m = dict(
    version=1,
    setup_cmd="./setup.sh",
    hooks=dict(guard="futures_intrusive_verif",
               enable="RUSTFLAGS=\"--cfg futures_intrusive_verif\" cargo build --offline  (tools/build_harness.sh; harness has a path dependency on /repo)",
               baseline_off_cmd="cd /repo && cargo test --workspace --no-fail-fast --offline",
               source_commits=hook_commits(), add_only=True),
    engines=[dict(name="coq-proof+correspondence", path="tools/check.py", serves_properties=[c["property_id"] for c in checks],
                  kind_free_text="Coq 8.16 theorems over hand-written Gallina models (coq/), extracted to OCaml and run differentially against the real crate built from /repo (harness/): model-guided exhaustive exploration to a fixpoint + seeded random histories; C16 model regenerated from source by a translator")],
    checks=checks,
    not_applicable=na,
    notes="See DESIGN.md. known_findings.json lists repaired/open defects. Evidence files are rewritten by every run.",
)
json.dump(m, open(os.path.join(ROOT, "MANIFEST.json"), "w"), indent=1)
print("MANIFEST.json:", len(checks), "checks,", len(na), "not_applicable")
