"""Failing-input search and known-finding classification.
(Monitors over implementation traces are added per property; absent monitor => no search.)"""
import json, os

ROOT = os.path.dirname(os.path.dirname(os.path.abspath(__file__)))


def search(prop, spec, corr, tier, seed):
    fn = spec.get("monitor")
    if not fn:
        return None
    import importlib
    mod = importlib.import_module("mon_" + prop.lower())
    return mod.search(corr, tier, seed)


def filter_known(prop, violations, failing, known):
    """A violation is suppressed only if an *unfixed* known finding for this property
    classifies the failing input; 'fixed' entries suppress nothing."""
    hits = []
    unfixed = [k for k in known.get("findings", []) if k.get("property") == prop and k.get("status") == "open"]
    if not unfixed or not failing:
        return violations, hits
    for k in unfixed:
        if failing.get("class") == k.get("class"):
            hits.append(k)
    if hits:
        # everything explained by the known class is dropped; anything else stays
        rest = [v for v in violations if v.get("kind") not in ("correspondence", "monitor") or v.get("class") not in [k["class"] for k in hits]]
        return rest, hits
    return violations, hits
