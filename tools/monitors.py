"""Failing-input search and known-finding classification.

When a proof obligation or the correspondence of a property breaks, the check looks for a
concrete history on which the property itself fails on the REAL crate: the property's
monitor (a Coq function over observable traces, extracted; `modelrun monitor <id>`) is
evaluated on the implementation's own traces of an exhaustive model-guided exploration and
of random histories; the first failing history is shrunk by delta debugging, re-executing
every candidate on the real crate."""
import json, os, shutil, subprocess, tempfile

ROOT = os.path.dirname(os.path.dirname(os.path.abspath(__file__)))
BUILD = os.path.join(ROOT, "build")
MODELRUN = os.path.join(BUILD, "ocaml", "modelrun")
HARNESS = os.path.join(BUILD, "harness-target", "debug", "fi-harness")


HARNESS_RELEASE = os.path.join(BUILD, "harness-target", "release", "fi-harness")
SEARCH_STEP_S = 300     # wall-clock box for one generation / execution / monitor call of the search


def harness_for(flavour):
    """flavour may carry the suffix @release (thorough tier: no debug assertions, wrapping arithmetic)"""
    if flavour.endswith("@release"):
        return HARNESS_RELEASE, flavour.split("@")[0]
    return HARNESS, flavour


def _run_monitor(mon_id, lines, flavour, workdir):
    """returns list of (prefix_len, history_line) failing on the implementation"""
    hist = os.path.join(workdir, "m.hist"); obs = os.path.join(workdir, "m.obs")
    with open(hist, "w") as f:
        f.write("\n".join(lines) + "\n")
    binary, base = harness_for(flavour)
    try:
        with open(hist) as hf, open(obs, "w") as of:
            subprocess.run([binary, base], stdin=hf, stdout=of, stderr=subprocess.DEVNULL, timeout=SEARCH_STEP_S)
        r = subprocess.run([MODELRUN, "monitor", str(mon_id), hist, obs], capture_output=True, text=True, timeout=SEARCH_STEP_S)
    except subprocess.TimeoutExpired:
        return []      # the search is best effort and time-boxed
    out = []
    for l in r.stdout.splitlines():
        try:
            d = json.loads(l); out.append((d["prefix"], d["history"]))
        except Exception:
            pass
    return out


def _model_ok(lines, workdir):
    """keep only candidate histories every op of which is a callable, non-panicking call in the model"""
    hist = os.path.join(workdir, "c.hist")
    with open(hist, "w") as f:
        f.write("\n".join(lines) + "\n")
    r = subprocess.run([MODELRUN, "print", hist], capture_output=True, text=True)
    ok = []
    for l, tr in zip(lines, r.stdout.splitlines()):
        if "r:99" in tr or "r:98" in tr:
            continue
        ok.append(l)
    return ok


def shrink(mon_id, line, flavour, workdir):
    parts = line.split(";")
    head, ops = parts[:3], parts[3:]
    import time
    t_end = time.time() + 180      # shrinking is time-boxed; a longer failing history is still a failing history
    changed = True
    while changed and len(ops) > 1 and time.time() < t_end:
        changed = False
        cands = [";".join(head + ops[:i] + ops[i + 1:]) for i in range(len(ops))]
        if head[0] == "mpmc":
            from check import retag_line
            cands = [retag_line(c) for c in cands]
        cands = _model_ok(cands, workdir)
        if not cands:
            break
        fails = _run_monitor(mon_id, cands, flavour, workdir)
        if fails:
            fails.sort(key=lambda x: x[0])
            ops = fails[0][1].split(";")[3:]
            changed = True
    return ";".join(head + ops)


def search(prop, spec, corr, tier, seed):
    mon = spec.get("monitor")
    if not mon:
        return None
    workdir = tempfile.mkdtemp(prefix="search-", dir=BUILD)
    try:
        return _search(prop, spec, corr, tier, seed, mon, workdir)
    finally:
        shutil.rmtree(workdir, ignore_errors=True)


def _search(prop, spec, corr, tier, seed, mon, workdir):
    from registry import RUNS
    import time
    # the whole search is time-boxed: it only serves to turn an already detected violation into
    # a concrete failing input
    deadline = time.time() + (900 if tier == "thorough" else 300)
    budget = mon.get("states", 60000) * (5 if tier == "thorough" else 1)
    # runs in which the correspondence already mismatched come first
    bad_runs = [r["name"] for r in corr.get("runs", []) if r.get("mismatches")]
    ordered = sorted(RUNS, key=lambda r: (r["name"] not in bad_runs))
    mon_prims = {r["prim"] for r in RUNS if r["name"] in mon["runs"]}
    for run in ordered:
        # the runs registered for the monitor, and any other run of the same primitive in which
        # the correspondence mismatched (e.g. the shared-waker runs)
        if run["name"] not in mon["runs"] and not (run["name"] in bad_runs and run["prim"] in mon_prims):
            continue
        if time.time() > deadline:
            return None
        tcfg = run.get(tier) or run["quick"]
        if not (tcfg.get("explore") or tcfg.get("random") or tcfg.get("scale")):
            continue        # scripted-only runs (300 waiters): too long for the prefix-wise monitor
        hist = os.path.join(workdir, "full.hist")
        with open(hist, "w") as hf:
            try:
                # (runs without exploration - the scripted 300-waiter histories - only contribute
                # their corpus and walks: breadth-first over 900 enabled operations is pointless)
                if (run.get(tier) or run["quick"]).get("explore", 0):
                    subprocess.run([MODELRUN, run.get("explore_cmd", "explore") + "-full", run["prim"], run["cfg"], str(budget)], stdout=hf, stderr=subprocess.DEVNULL, timeout=SEARCH_STEP_S)
            except subprocess.TimeoutExpired:
                pass   # the histories written so far are still used
            rc = run.get("random_cfg", run["cfg"])
            subprocess.run([MODELRUN, "random", run["prim"], rc, str(seed), "2000", "80"], stdout=hf, stderr=subprocess.DEVNULL)
            if "scale" in run.get(tier, run.get("quick", {})):
                tgt = run[tier if tier in run else "quick"]["scale"][2]
                subprocess.run([MODELRUN, "scale", run["prim"], run.get("scale_cfg", rc), str(seed), "400", "80", str(tgt)], stdout=hf, stderr=subprocess.DEVNULL)
        for cf in (os.path.join(ROOT, "corpus", run["prim"] + ".txt"), os.path.join(ROOT, "corpus", run["name"] + ".txt")):
            if os.path.exists(cf):
                with open(hist, "a") as hf:
                    for l in open(cf):
                        if l.strip() and not l.startswith("#"):
                            p2 = l.strip().split(";"); p2[2] = "A"; hf.write(";".join(p2) + "\n")
        raw = open(hist).read()
        lines = [l.strip() for l in raw.split("\n") if l.strip()]
        if raw and not raw.endswith("\n") and lines:
            lines.pop()        # a generator stopped by its time box may leave a partial line
        if run["prim"] == "mpmc":
            from check import retag_line
            lines = [retag_line(l) for l in lines]
        fls = list(run["flavours"])
        if tier == "thorough" and os.path.exists(HARNESS_RELEASE) and run["prim"] != "ringbuf":
            fls += [f + "@release" for f in run["flavours"]]
        for fl in fls:
            if time.time() > deadline:
                return None
            fails = _run_monitor(mon["id"], lines, fl, workdir)
            if fails:
                fails.sort(key=lambda x: (x[0], len(x[1])))
                small = shrink(mon["id"], fails[0][1], fl, workdir)
                # replay the shrunk history once more for the record
                binary, base = harness_for(fl)
                obs = subprocess.run([binary, base], input=small + "\n", capture_output=True, text=True).stdout.strip()
                model = subprocess.run([MODELRUN, "print", "-"], input=small + "\n", capture_output=True, text=True).stdout.strip()
                return dict(history=small, flavour=fl, monitor=mon["id"], run=run["name"],
                            failing_histories=len(fails), implementation_trace=obs.split(";"),
                            model_trace=model.split(";"), klass=classify(prop, small))
    return None


def classify(prop, history):
    """Names the class of a failing history; used only to match *open* known findings."""
    return "unclassified"


def filter_known(prop, violations, failing, known):
    """A violation is suppressed only if an OPEN known finding for this property names the
    class of the failing input; 'fixed' entries suppress nothing."""
    hits = []
    opened = [k for k in known.get("findings", []) if k.get("property") == prop and k.get("status") == "open"]
    if not opened or not failing:
        return violations, hits
    for k in opened:
        if failing.get("klass") == k.get("klass"):
            hits.append(k)
    if hits:
        return [], hits
    return violations, hits


def followup(prop, spec, corr, tier, seed, all_keys=False):
    """Divergence follow-up: the implementation's state differs from the model's on observables
    this property does not compare (typically the queue snapshot).  The exploration is
    model-guided, so behaviour AFTER such a divergence was not explored: continue every
    divergent history by all contract-respecting continuations (depth 2, thorough 3) and
    evaluate this property's monitor on the implementation's traces."""
    mon = spec.get("monitor")
    if not mon:
        return None
    keys = set(spec["keys"])
    div = {}
    for r in corr["runs"]:
        for m in r["mismatches"]:
            if ((m["key"] in keys and not all_keys) or m["key"] in ("crash", "shape", "a") or not m.get("history")
                    or m["history"].split(";")[2] not in ("L", "A")):
                continue
            hist = m["history"]
            hp = hist.split(";")
            if hp[2] == "A" and isinstance(m.get("step"), int) and m["step"] >= 0:
                # full-trace history (random / scale walk): continue from the diverging step
                hist = ";".join(hp[:3 + m["step"] + 1])
            lst = div.setdefault((r["name"], m["flavour"].split("@")[0]), [])
            if hist not in lst and len(lst) < (12 if all_keys else 60):
                lst.append(hist)
    if not div:
        return None
    workdir = tempfile.mkdtemp(prefix="follow-", dir=BUILD)
    try:
        return _followup(prop, spec, tier, mon, div, workdir, drain=all_keys)
    finally:
        shutil.rmtree(workdir, ignore_errors=True)


def _followup(prop, spec, tier, mon, div, workdir, drain=False):
    depth = "3" if tier == "thorough" and not drain else "2"
    for (rname, fl), hists in div.items():
        # histories of ordinary size only: evaluating a monitor prefix by prefix on the scripted
        # 300-waiter histories (~1500 steps) takes minutes per candidate
        hists = [h for h in hists if h.count(";") <= 300]
        if not hists:
            continue
        base = os.path.join(workdir, "base.hist")
        with open(base, "w") as f:
            f.write("\n".join(hists) + "\n")
        lines = []
        if drain:
            # every future consumes its wake-up (polls in both orders), from the diverging step
            ext = subprocess.run([MODELRUN, "extend-drain", base], capture_output=True, text=True).stdout
            lines += [l for l in ext.splitlines() if l.strip()]
        # all continuations of depth 2 (3): only for histories of ordinary size (the scripted
        # 300-waiter histories have ~900 enabled operations and ~1500 steps each)
        small = [h for h in hists if h.count(";") <= 300]
        if small:
            with open(base, "w") as f:
                f.write("\n".join(small) + "\n")
            ext = subprocess.run([MODELRUN, "extend", depth, base], capture_output=True, text=True).stdout
            lines += [l for l in ext.splitlines() if l.strip()][:400000]
        if hists and hists[0].startswith("mpmc;"):
            from check import retag_line
            lines = [retag_line(l) for l in lines]
        if not lines:
            continue
        fails = _run_monitor(mon["id"], lines, fl, workdir)
        if fails:
            fails.sort(key=lambda x: (x[0], len(x[1])))
            small = shrink(mon["id"], fails[0][1], fl, workdir)
            obs = subprocess.run([HARNESS, fl], input=small + "\n", capture_output=True, text=True).stdout.strip()
            model = subprocess.run([MODELRUN, "print", "-"], input=small + "\n", capture_output=True, text=True).stdout.strip()
            return dict(history=small, flavour=fl, monitor=mon["id"], run=rname, found_by="divergence follow-up",
                        failing_histories=len(fails), implementation_trace=obs.split(";"), model_trace=model.split(";"),
                        klass=classify(prop, small))
    return None


def sequentialize(prop, spec, history, observed, runtag):
    """history = threaded history line (mode P<t>), observed = its stamped results.  Candidates:
    the operations in generation order and in order of their start stamps, executed sequentially
    (mode A) on the real crate; the property's monitor decides."""
    mon = spec.get("monitor")
    parts = history.split(";")
    if len(parts) < 4 or not mon:
        return None
    head, ops = parts[:2] + ["A"], parts[3:]
    cands = [";".join(head + ops)]
    ents = observed.split(";")
    stamped = []
    for op, e in zip(ops, ents):
        try:
            stamped.append((int(e.split("|")[0].split()[0]), op))
        except Exception:
            pass
    if stamped:
        stamped.sort()
        cands.append(";".join(head + [o for _, o in stamped]))
    flavour = "sync"
    for fl in ("shared", "growing", "sync"):
        if "-%s-" % fl in runtag:
            flavour = fl
    workdir = tempfile.mkdtemp(prefix="seq-", dir=BUILD)
    try:
        if head[0] == "mpmc":
            from check import retag_line
            cands = [retag_line(c) for c in cands]
        # keep the longest contract-respecting prefix of every candidate
        good = []
        for c in cands:
            cp = c.split(";")
            tr = subprocess.run([MODELRUN, "print", "-"], input=c + "\n", capture_output=True, text=True).stdout.strip().split(";")
            n = 0
            for t in tr:
                if "r:99" in t:
                    break
                n += 1
            if n:
                good.append(";".join(cp[:3 + n]))
        if not good:
            return None
        fails = _run_monitor(mon["id"], good, flavour, workdir)
        if not fails:
            return None
        fails.sort(key=lambda x: (x[0], len(x[1])))
        small = shrink(mon["id"], fails[0][1], flavour, workdir)
        obs = subprocess.run([HARNESS, flavour], input=small + "\n", capture_output=True, text=True).stdout.strip()
        model = subprocess.run([MODELRUN, "print", "-"], input=small + "\n", capture_output=True, text=True).stdout.strip()
        return dict(history=small, flavour=flavour, monitor=mon["id"], run=runtag, found_by="sequential replay of a non-linearizable threaded run",
                    implementation_trace=obs.split(";"), model_trace=model.split(";"), klass=classify(prop, small))
    finally:
        shutil.rmtree(workdir, ignore_errors=True)
