#!/usr/bin/env python3
"""Atomic-section audit (DESIGN 1.2): the models take one step per critical section, and the
sequential correspondence cannot see a change that splits a section in two (check-then-act
across an unlock), which would break every "for all schedules" claim.  This tool extracts, for
every function of /repo/src outside the verification hooks and tests, the number of lock
acquisitions (`.lock()`) and atomic operations it performs, and compares the table with the one
the models' step granularity was derived from (atomic_sections.json, committed).
  tools/atomic_audit.py            compare, exit 1 on difference
  tools/atomic_audit.py --update   rewrite the baseline (only after re-deriving the models)"""
import os, re, sys, json

ROOT = os.path.dirname(os.path.dirname(os.path.abspath(__file__)))
BASE = os.path.join(ROOT, "atomic_sections.json")
sys.path.insert(0, os.path.join(ROOT, "tools"))
from rs2coq_types import strip


def functions(src):
    """yield (qualified-ish name, body) for every fn with a body, skipping cfg(verif)/test items"""
    out = []
    i, n = 0, len(src)
    impl_stack = []
    depth = 0
    skip_until = None
    pat = re.compile(r"(#\[cfg\([^\]]*\)\])|\b(impl\b[^{;]*)\{|\bmod\s+(\w+)\s*\{|\bfn\s+(\w+)[^{;]*\{|([{}])")
    pending_skip = False
    for m in pat.finditer(src):
        if skip_until is not None and m.start() < skip_until:
            continue
        if m.group(1):
            if "futures_intrusive_verif" in m.group(1) or "test" in m.group(1):
                pending_skip = True
            continue
        # find the matching close for constructs that open a brace
        def close_of(pos):
            d, j = 0, pos
            while j < n:
                if src[j] == "{":
                    d += 1
                elif src[j] == "}":
                    d -= 1
                    if d == 0:
                        return j
                j += 1
            return n
        if m.group(2) is not None:
            brace = m.end() - 1
            end = close_of(brace)
            if pending_skip:
                skip_until = end; pending_skip = False; continue
            head = re.sub(r"\s+", " ", m.group(2)).strip()
            tgt = re.search(r"for\s+([A-Za-z_][A-Za-z0-9_:]*)", head)
            name = tgt.group(1) if tgt else re.sub(r"^impl\s*(<[^>]*>)?\s*", "", head).split("<")[0].strip()
            trait = re.search(r"impl\s*(?:<.*?>)?\s*([A-Za-z_][A-Za-z0-9_:]*)\s*(?:<.*?>)?\s+for", head)
            impl_stack.append((end, (trait.group(1).split("::")[-1] + " for " if trait else "") + name.split("::")[-1]))
            pending_skip = False
            continue
        if m.group(3) is not None:
            brace = m.end() - 1
            if pending_skip or m.group(3) == "tests":
                skip_until = close_of(brace)
            pending_skip = False
            continue
        if m.group(4) is not None:
            brace = m.end() - 1
            end = close_of(brace)
            if not pending_skip:
                while impl_stack and impl_stack[-1][0] < m.start():
                    impl_stack.pop()
                owner = impl_stack[-1][1] if impl_stack else ""
                is_pub = re.search(r"\bpub(\s*\([^)]*\))?\s+((unsafe|const|async|extern\s*\"[^\"]*\")\s+)*$", src[max(0, m.start() - 60):m.start()]) is not None
                out.append(((owner + "::" if owner else "") + m.group(4), src[brace:end + 1], is_pub))
            pending_skip = False
            skip_until = end
            continue
    return out


OPS_RE = r"\.lock\(\)|\.(fetch_add|fetch_sub|load|store|compare_exchange|swap)\(|\bfence\(|\.now\(\)"


def inline_new_helpers(rel, fns, base):
    """A private helper that the baseline does not know (extracted from its callers by a
    refactoring) is not a section of its own: its body is counted at its call sites, as if it had
    never been extracted.  Only helpers that resolve unambiguously: private, not a trait method,
    name unique in the file."""
    for _ in range(3):
        names = [n.split("::")[-1] for n, _, _ in fns]
        cand = None
        for n, b, is_pub in fns:
            own = n.split("::")[-1]
            if (rel + "::" + n) in base or is_pub or " for " in n or names.count(own) != 1:
                continue
            if own in ("new", "drop", "clone", "poll", "fmt") or not re.search(OPS_RE, b):
                continue
            call = re.compile(r"\b%s\s*\(" % re.escape(own))
            if any(call.search(b2[1:]) for n2, b2, _ in fns if n2 != n):
                cand = (n, b, call)
                break
        if not cand:
            break
        n, b, call = cand
        fns = [(n2, "{" + call.sub(lambda m: " " + b + " (", b2[1:]), p2) for n2, b2, p2 in fns if n2 != n]
    return [(n, b) for n, b, _ in fns]


def table(srcdir="/repo/src", base=None):
    t = {}
    for root, _, files in sorted(os.walk(srcdir)):
        for f in sorted(files):
            if not f.endswith(".rs"):
                continue
            path = os.path.join(root, f)
            rel = os.path.relpath(path, srcdir)
            fns = functions(strip(open(path).read()))
            fns = inline_new_helpers(rel, fns, base) if base is not None else [(n, b) for n, b, _ in fns]
            # functions of this file that take the lock / touch an atomic themselves: a call to one
            # of them from another function is a further critical section of the caller
            skip = {"new", "drop", "clone", "poll", "fmt"}
            lock_re = r"\.lock\(\)|\.(fetch_add|fetch_sub|load|store|compare_exchange|swap)\("
            # (owner, method) pairs that lock; `self.m(` resolves inside the caller's own type,
            # any other receiver is matched by method name among the OTHER types of the file
            lockers = {(n.rsplit("::", 1)[0] if "::" in n else "", n.split("::")[-1]) for n, b in fns if re.search(lock_re, b)}
            lockers = {(o, m) for o, m in lockers if m not in skip}
            for name, body in fns:
                owner = name.rsplit("::", 1)[0] if "::" in name else ""
                owner_t = owner.split(" for ")[-1]
                own = name.split("::")[-1]
                inner = body[1:]
                calls = set()
                for o, m in lockers:
                    o_t = o.split(" for ")[-1]
                    if m == own and o_t == owner_t:
                        continue
                    # only calls that resolve unambiguously: `self.m(...)` to a locking method of the
                    # caller's own type (a second critical section of the same public call)
                    if o_t == owner_t and re.search(r"\bself\s*\.\s*%s\(" % re.escape(m), inner):
                        calls.add(m)
                calls = sorted(calls)
                if calls and not re.search(r"\.lock\(\)|\.(fetch_add|fetch_sub|load|store|compare_exchange|swap)\(", body):
                    # pure wrappers are recorded too (they are one section, through the callee)
                    pass
                locks = len(re.findall(r"\.lock\(\)", body))
                atom = len(re.findall(r"\.(fetch_add|fetch_sub|load|store|compare_exchange|swap)\(", body))
                orders = re.findall(r"Ordering::(\w+)|\b(Relaxed|Release|Acquire|AcqRel|SeqCst)\b", body)
                orders = [a or b for a, b in orders]
                fences = len(re.findall(r"\bfence\(", body))
                # a clock read is an atomic load of shared state, too: where it happens relative
                # to the lock matters (timer)
                clock = len(re.findall(r"\.now\(\)", body))
                if locks + atom + clock or calls:
                    key = rel + "::" + name
                    k2, c = key, 2
                    while k2 in t:
                        k2 = "%s#%d" % (key, c); c += 1
                    t[k2] = dict(locks=locks, atomics=atom, orderings=orders, fences=fences, locking_calls=calls, clock_reads=clock)
    return t


PRIM_FILES = {
    "event": ["sync/manual_reset_event.rs"],
    "mutex": ["sync/mutex.rs"],
    "semaphore": ["sync/semaphore.rs"],
    "mpmc": ["channel/mpmc.rs", "channel/channel_future.rs"],
    "oneshot": ["channel/oneshot.rs", "channel/oneshot_broadcast.rs", "channel/channel_future.rs"],
    "state": ["channel/state_broadcast.rs", "channel/channel_future.rs"],
    "timer": ["timer/timer.rs", "timer/clock.rs"],
}


def relevant(prop):
    """files whose critical sections the models of this property's primitives are steps of"""
    try:
        from registry import PROPS
        spec = PROPS[prop] if isinstance(PROPS, dict) else [x for x in PROPS if x.get("id") == prop][0]
        fs = set()
        from registry import RUNS
        prims = set(spec.get("prims", []))
        for r in RUNS:
            if r["name"] in spec.get("runs", []):
                prims.add(r["prim"])
        for pr in prims:
            fs.update(PRIM_FILES.get(pr, []))
        return fs or None
    except Exception:
        return None


def run(prop=None, tier="quick", seed=1):
    rel = relevant(prop) if prop else None
    if not os.path.exists(BASE):
        return [dict(kind="atomic-audit", detail="baseline atomic_sections.json missing")], {}
    base = json.load(open(BASE))
    cur = table(base=base)
    if rel:
        cur = {k: v for k, v in cur.items() if k.split("::")[0] in rel}
    if rel:
        base = {k: v for k, v in base.items() if k.split("::")[0] in rel}
    probs = []
    for k in sorted(set(cur) | set(base)):
        if cur.get(k) != base.get(k):
            probs.append(dict(kind="atomic-audit", detail=dict(function=k, expected=base.get(k), found=cur.get(k),
                              meaning="the critical sections / atomic operations / memory orderings of this function differ from what the model's step granularity and the sequential correspondence assume")))
    return probs[:10], dict(atomic_audit_functions=len(cur))


if __name__ == "__main__":
    if "--update" in sys.argv:
        json.dump(table(), open(BASE, "w"), indent=1, sort_keys=True); print("baseline written:", len(table()), "functions")
    else:
        p, c = run()
        print(json.dumps(c)); [print(json.dumps(x)) for x in p]
        sys.exit(1 if p else 0)
