#!/usr/bin/env python3
"""tools/replay.py <replay.json | history-line> : re-executes the failing input of a replay file
on the real crate (built from /repo) and on the extracted model, printing both traces."""
import sys, os, json, subprocess
ROOT = os.path.dirname(os.path.dirname(os.path.abspath(__file__)))
MODELRUN = os.path.join(ROOT, "build", "ocaml", "modelrun")
HARNESS = os.path.join(ROOT, "build", "harness-target", "debug", "fi-harness")
arg = sys.argv[1]
flavour = "local"
if os.path.exists(arg):
    d = json.load(open(arg))
    fi = d.get("failing_input")
    if fi and fi.get("history"):
        hist, flavour = fi["history"], fi.get("flavour", "local")
    else:
        # a threaded run that was not linearizable: recorded stamps + a fresh attempt
        th = [x["detail"]["detail"] for x in d["violations"] if x.get("kind") == "threads"
              and isinstance(x.get("detail"), dict) and isinstance(x["detail"].get("detail"), dict) and x["detail"]["detail"].get("history")]
        if th and not any(isinstance(x.get("detail"), dict) and x["detail"].get("history") for x in d["violations"]):
            t = th[0]
            import tempfile
            wd = tempfile.mkdtemp(prefix="replay-")
            hf, of = os.path.join(wd, "h"), os.path.join(wd, "o")
            open(hf, "w").write(t["history"] + "\n"); open(of, "w").write(t.get("observed_stamps_and_results", "") + "\n")
            r = subprocess.run([MODELRUN, "linearize", hf, of], capture_output=True, text=True)
            print("recorded threaded run:", t["history"]); print("  linearizability of the RECORDED stamps/results:", r.stderr.strip())
            fl = "sync"
            for f in ("shared", "growing", "sync"):
                if "-%s-" % f in t.get("run", ""):
                    fl = f
            open(hf, "w").write((t["history"] + "\n") * 300)
            with open(hf) as i, open(of, "w") as o:
                subprocess.run([HARNESS, fl], stdin=i, stdout=o)
            r = subprocess.run([MODELRUN, "linearize", hf, of], capture_output=True, text=True)
            print("  300 fresh executions on the current tree (flavour %s):" % fl, r.stderr.strip())
            sys.exit(0)
        v = [x for x in d["violations"] if isinstance(x.get("detail"), dict) and x["detail"].get("history")]
        if not v:
            print("no executable failing input in this replay file; it names the broken obligation:")
            print(json.dumps(d["violations"], indent=1)[:3000]); sys.exit(0)
        hist, flavour = v[0]["detail"]["history"], v[0]["detail"].get("flavour", "local")
else:
    hist = arg
if flavour.endswith("@release"):
    HARNESS = os.path.join(ROOT, "build", "harness-target", "release", "fi-harness")
    flavour = flavour.split("@")[0]
if hist.count(";") < 3 or hist.split(";")[0] not in ("event", "mutex", "semaphore", "mpmc", "oneshot", "state", "timer", "ringbuf", "dlist", "pheap"):
    # C16: the failing input is a Rust program fragment (an instantiation rustc accepts although
    # the requirement table forbids it): compile it against /repo with the witness types
    sys.path.insert(0, os.path.join(ROOT, "tools"))
    import c16
    types = c16.load_types()
    c16.gen_probe(types)
    main = os.path.join(c16.PROBE, "src", "main.rs")
    src = open(main).read()
    head = src[:src.index("fn main() {")]
    open(main, "w").write(head + "fn main() {\n    " + hist.replace("todo!()", "unsafe { &*(8 as *const _) }") + "\n}\n")
    env = dict(os.environ, CARGO_NET_OFFLINE="true", CARGO_TARGET_DIR=os.path.join(ROOT, "build", "c16probe-target"), RUSTFLAGS="-A warnings")
    r = subprocess.run(["cargo", "build", "--offline", "-q"], cwd=c16.PROBE, env=env, capture_output=True, text=True)
    print("failing input (Rust):", hist)
    if r.returncode == 0:
        print("rustc ACCEPTS this program against /repo's current tree: the type-level contract is violated")
    else:
        print("rustc REJECTS this program against /repo's current tree (the contract holds for this instance):")
        print("\n".join(l for l in r.stderr.splitlines() if l.startswith("error"))[:1200])
    sys.exit(0)
parts = hist.split(";"); parts[2] = "A"; hist = ";".join(parts)
subprocess.run([os.path.join(ROOT, "tools", "build_harness.sh")])
subprocess.run([os.path.join(ROOT, "tools", "build_modelrun.sh")])
impl = subprocess.run([HARNESS, flavour], input=hist + "\n", capture_output=True, text=True).stdout.strip().split(";")
model = subprocess.run([MODELRUN, "print", "-"], input=hist + "\n", capture_output=True, text=True).stdout.strip().split(";")
print("history:", hist, " flavour:", flavour)
for i, op in enumerate(parts[3:]):
    a = impl[i] if i < len(impl) else "?"; b = model[i] if i < len(model) else "?"
    print(f"{i:3d} op [{op}]\n      impl : {a}\n      model: {b}" + ("" if a == b else "   <-- differ"))
