#!/bin/bash
# usage: coqgoal.sh <file.v> <line> : show the proof state after the given line
f=$1; n=$2
cd /verif/coq
tmp=$(mktemp /verif/build/goalXXXX.v)
head -n "$n" "$f" > "$tmp"
echo "Show." >> "$tmp"
coqtop -Q Common FI -Q Model FI -Q Proofs FI -Q L0 FI -Q Properties FI -Q Gen FI -batch -load-vernac-source "$tmp" 2>&1 | grep -v conda | tail -n ${3:-60}
rm -f "$tmp"
