#!/bin/bash
# Extract the Coq models to OCaml and build the model runner (build/ocaml/modelrun).
set -e
cd "$(dirname "$0")/.."
mkdir -p build/ocaml
cd build/ocaml
stamp=$(cat /verif/coq/Extract/Extract.v /verif/coq/Model/*.v /verif/coq/Common/*.v /verif/coq/L0/*.v /verif/ocaml/*.ml 2>/dev/null | sha256sum | cut -d' ' -f1)
if [ -x modelrun ] && [ "$(cat .stamp 2>/dev/null)" = "$stamp" ]; then exit 0; fi
rm -f *.ml *.mli *.cm* *.o modelrun
coqc -Q /verif/coq/Common FI -Q /verif/coq/Model FI -Q /verif/coq/L0 FI -Q /verif/coq/Proofs FI /verif/coq/Extract/Extract.v 2>&1 | grep -v conda || true
rm -f /verif/coq/Extract/Extract.vo /verif/coq/Extract/Extract.glob /verif/coq/Extract/.Extract.aux Extract.vo Extract.glob
cp /verif/ocaml/*.ml .
ocamlfind ocamlopt -O2 -w -a -o modelrun $(ocamlfind ocamldep -sort *.mli *.ml) 2>&1 | grep -v conda || true
[ -x modelrun ] || { echo "build_modelrun: failed"; exit 1; }
echo "$stamp" > .stamp
