#!/usr/bin/env python3
"""Scripted many-waiter histories (corpus/<run>.txt of the `*-big` runs): 300 waiters queued at
once, then served one by one / cancelled in bulk / woken by one set().  Exhaustive runs stop at
3-4 futures and the random / scale walks at 6-12; a waiter count narrowed to 8 bits (seeded
change C03i) needs 256.  The histories only fix the INPUT; what must happen is computed by the
extracted model as for every other history."""
import os
ROOT = os.path.dirname(os.path.dirname(os.path.abspath(__file__)))
N = 300


def mutex(fair, variant):
    ops = ["3"]
    for f in range(N):
        ops += ["0 %d" % f, "1 %d %d" % (f, 2 * f)]
    if variant == 0:        # serve everybody in turn, each re-polled with its other waker
        for f in range(N):
            ops += ["4", "5", "1 %d %d" % (f, 2 * f + 1)]
    else:                   # cancel all but the three youngest, then serve those
        for f in range(N - 3):
            ops += ["2 %d" % f]
        for f in range(N - 3, N):
            ops += ["4", "5", "1 %d %d" % (f, 2 * f)]
    ops += ["4", "5", "3"]
    return "mutex;%d %d;A;" % (N, fair) + ";".join(ops)


def event(variant):
    ops = []
    for f in range(N):
        ops += ["0 %d" % f, "1 %d %d" % (f, 2 * f)]
    if variant == 1:        # cancel every third waiter first
        ops += ["2 %d" % f for f in range(0, N, 3)]
    ops += ["3", "4"]
    ops += ["1 %d %d" % (f, 2 * f + 1) for f in range(N) if variant == 0 or f % 3]
    return "event;%d 0;A;" % N + ";".join(ops)


if __name__ == "__main__":
    for fair in (0, 1):
        with open(os.path.join(ROOT, "corpus", "mutex-big-%s.txt" % ("fair" if fair else "unfair")), "w") as f:
            f.write(mutex(fair, 0) + "\n" + mutex(fair, 1) + "\n")
    with open(os.path.join(ROOT, "corpus", "event-big.txt"), "w") as f:
        f.write(event(0) + "\n" + event(1) + "\n")
    print("corpus: mutex-big-unfair, mutex-big-fair, event-big written")
