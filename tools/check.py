#!/usr/bin/env python3
"""Per-property check:  tools/check.py <Cnn> [--tier quick|thorough] [--replay FILE]

 1. proof        : the property's Coq files are rebuilt (full .vo), every registered theorem
                   must be present with clean `Print Assumptions`; forbidden-token grep.
 2. correspondence: model-guided exhaustive exploration + random histories executed on the
                   real crate (built from /repo's working tree, hooks on), compared with the
                   extracted model on the observables the property is about.
 3. verdict      : exit 0 / `VIOLATION property=<id> replay=<path>` + exit 1; known findings.
Evidence is written to evidence/<id>.json on every run.
"""
import sys, os, json, subprocess, hashlib, time, re, glob, shutil, concurrent.futures

ROOT = os.path.dirname(os.path.dirname(os.path.abspath(__file__)))
BUILD = os.path.join(ROOT, "build")
COQ = os.path.join(ROOT, "coq")
MODELRUN = os.path.join(BUILD, "ocaml", "modelrun")
HARNESS = os.path.join(BUILD, "harness-target", "debug", "fi-harness")
HARNESS_RELEASE = os.path.join(BUILD, "harness-target", "release", "fi-harness")
sys.path.insert(0, os.path.join(ROOT, "tools"))
from registry import PROPS, RUNS, ALLOWED_AXIOMS, TRUSTED_BASE  # noqa: E402


def sh(cmd, **kw):
    return subprocess.run(cmd, shell=isinstance(cmd, str), capture_output=True, text=True, **kw)


def strip_noise(s):
    return "\n".join(l for l in s.splitlines() if "conda" not in l.lower())


def sha(*parts):
    h = hashlib.sha256()
    for p in parts:
        h.update(p if isinstance(p, bytes) else str(p).encode())
    return h.hexdigest()


def file_sha(path):
    with open(path, "rb") as f:
        return hashlib.sha256(f.read()).hexdigest()


# --------------------------------------------------------------------------- proof part
FORBIDDEN = re.compile(r"\b(Admitted|admit|Axiom|Axioms|Parameter|Parameters|Conjecture|Hypothesis|Variable)\b|Unset\s+Guard|bypass_check|type-in-type|impredicative-set|Admit\s+Obligations")


def strip_coq_comments(src):
    out, depth, i = [], 0, 0
    while i < len(src):
        if src.startswith("(*", i):
            depth += 1; i += 2
        elif src.startswith("*)", i) and depth > 0:
            depth -= 1; i += 2
        else:
            if depth == 0:
                out.append(src[i])
            i += 1
    return "".join(out)


def forbidden_tokens():
    hits = []
    for path in glob.glob(os.path.join(COQ, "**", "*.v"), recursive=True):
        code = strip_coq_comments(open(path).read())
        # Section-local Variable/Hypothesis are legitimate; flag them only outside sections
        depth = 0
        for ln, line in enumerate(code.splitlines(), 1):
            if re.match(r"\s*Section\b", line):
                depth += 1
            if re.match(r"\s*End\b", line) and depth > 0:
                depth -= 1
            for m in FORBIDDEN.finditer(line):
                tok = m.group(0)
                if tok in ("Variable", "Hypothesis") and depth > 0:
                    continue
                hits.append(f"{os.path.relpath(path, ROOT)}:{ln}: {tok}")
    return hits


def proof_part(prop):
    """returns dict(obligations, discharged, problems[list of str], assumptions{thm:txt})"""
    spec = PROPS[prop]
    res = dict(obligations=0, discharged=0, problems=[], theorems=[], axioms=[])
    files = spec.get("coq_files", [])
    pre = spec.get("pre_coq")
    if pre:
        r = sh(pre, cwd=ROOT)
        if r.returncode != 0:
            res["problems"].append("generator failed: " + strip_noise(r.stdout + r.stderr)[-400:])
    if not os.path.exists(os.path.join(COQ, "Makefile")):
        sh("coq_makefile -f _CoqProject -o Makefile", cwd=COQ)
    for vf in files:
        vo = os.path.join(COQ, vf[:-2] + ".vo")
        if os.path.exists(vo):
            os.remove(vo)
        r = sh(f"timeout 1500 make -j16 {vf[:-2]}.vo", cwd=COQ)
        out = strip_noise(r.stdout + "\n" + r.stderr)
        src = open(os.path.join(COQ, vf)).read()
        code = strip_coq_comments(src)
        thms = re.findall(r"\b(?:Theorem|Lemma|Corollary)\s+([A-Za-z0-9_']+)", code)
        printed = re.findall(r"Print Assumptions\s+([A-Za-z0-9_']+)", code)
        want = spec.get("theorems", {}).get(vf)
        if want is not None:
            missing = [t for t in want if t not in thms]
            if missing:
                res["problems"].append(f"{vf}: registered theorems missing: {missing}")
        else:
            want = thms
        res["obligations"] += len(want)
        unprinted = [t for t in want if t not in printed]
        if unprinted:
            res["problems"].append(f"{vf}: no Print Assumptions for {unprinted}")
        pin = spec.get("pins", {}).get(vf)
        stmt_hash = sha(re.sub(r"\s+", " ", re.sub(r"Proof\..*?Qed\.", "", code, flags=re.S)))
        if pin and pin != stmt_hash:
            res["problems"].append(f"{vf}: statements changed (pin {pin[:12]} != {stmt_hash[:12]})")
        res.setdefault("stmt_hashes", {})[vf] = stmt_hash
        if r.returncode != 0:
            err = [l for l in out.splitlines() if l.strip()][-12:]
            res["problems"].append(f"{vf}: does not compile: " + " | ".join(err))
            continue
        # Print Assumptions output, in order
        blocks = re.split(r"(?m)^(?=Closed under the global context|Axioms:)", out)
        blocks = [b for b in blocks if b.startswith("Closed under") or b.startswith("Axioms:")]
        if len(blocks) != len(printed):
            res["problems"].append(f"{vf}: {len(printed)} Print Assumptions but {len(blocks)} outputs")
        for name, b in zip(printed, blocks):
            if name not in want:
                continue
            if b.startswith("Closed under"):
                res["discharged"] += 1
                res["theorems"].append(name)
            else:
                axs = re.findall(r"(?m)^([A-Za-z0-9_.']+)\s*:", b[len("Axioms:"):])
                bad = [a for a in axs if a not in ALLOWED_AXIOMS]
                res["axioms"] += [a for a in axs if a not in res["axioms"]]
                if bad:
                    res["problems"].append(f"{vf}: {name} depends on non-allow-listed axioms {bad}")
                else:
                    res["discharged"] += 1
                    res["theorems"].append(name)
    hits = forbidden_tokens()
    if hits:
        res["problems"].append("forbidden tokens: " + "; ".join(hits[:10]))
    if os.environ.get("VERIF_TIER_INTERNAL") == "thorough" and files and not res["problems"]:
        # independent re-check of the compiled property files and everything they depend on
        mods = " ".join("FI." + os.path.basename(vf)[:-2] for vf in files)
        qs = " ".join("-Q %s FI" % d for d in ("Common", "Model", "Proofs", "Properties", "L0", "Gen", "Extract"))
        r = sh(f"timeout 1500 coqchk -silent -o {qs} {mods}", cwd=COQ)
        out = strip_noise(r.stdout + "\n" + r.stderr)
        m = re.search(r"\* Axioms:(.*?)\n\s*\n\* Constants/Inductives relying on type-in-type:(.*?)\n\s*\n\* Constants/Inductives relying on unsafe \(co\)fixpoints:(.*?)\n\s*\n\* Inductives whose positivity is assumed:(.*?)\n", out + "\n\n", re.S)
        if r.returncode != 0 or not m:
            res["problems"].append("coqchk failed: " + " | ".join(out.splitlines()[-6:]))
        else:
            ax = [a.strip() for a in m.group(1).strip().splitlines() if a.strip() and a.strip() != "<none>"]
            bad = [a for a in ax if a.split()[0] not in ALLOWED_AXIOMS]
            others = [g.strip() for g in m.groups()[1:] if g.strip() != "<none>"]
            if bad or others:
                res["problems"].append(f"coqchk: axioms {bad} / relaxed checks {others}")
            res["coqchk"] = dict(modules=mods, axioms=ax or ["<none>"], type_in_type="<none>" if not others else others)
    return res


def retag_line(line):
    """mpmc: give every injected value (CreateSend f v = `0 f v`, TrySend v = `7 v`) a tag that is
    unique in the whole history (the exploration reuses a tag once its value left the system;
    the theorems and monitors assume globally unique tags; behaviour does not depend on tags)"""
    parts = line.rstrip("\n").split(";")
    n = 0
    for i in range(3, len(parts)):
        t = parts[i].split(" ")
        if t[0] == "0" and len(t) == 3:
            n += 1; t[2] = str(n); parts[i] = " ".join(t)
        elif t[0] == "7" and len(t) == 2:
            n += 1; t[1] = str(n); parts[i] = " ".join(t)
    return ";".join(parts)


def retag_file(path):
    tmp = path + ".retag"
    with open(path) as f, open(tmp, "w") as g:
        for l in f:
            if l.strip():
                g.write(retag_line(l) + "\n")
    os.replace(tmp, path)


# --------------------------------------------------------------------------- correspondence
def build_tools():
    r = sh(os.path.join(ROOT, "tools", "build_modelrun.sh"))
    if r.returncode != 0:
        return "model runner build failed: " + strip_noise(r.stdout + r.stderr)[-600:]
    r = sh(os.path.join(ROOT, "tools", "build_harness.sh") + (" release" if os.environ.get("VERIF_TIER_INTERNAL") == "thorough" else ""))
    if r.returncode != 0:
        return "harness build against /repo failed: " + strip_noise(r.stdout + r.stderr)[-1500:]
    return None


def one_run(run, tier, seed, bin_hash):
    """run one (primitive, cfg) entry: generate histories, execute on each flavour, compare.
    Cached on (binaries, run spec, tier, seed)."""
    name = run["name"]
    key = sha(bin_hash, json.dumps(run, sort_keys=True), tier, seed)[:24]
    cdir = os.path.join(BUILD, "corr", f"{name}-{key}")
    done = os.path.join(cdir, "result.json")
    if os.path.exists(done):
        return json.load(open(done))
    shutil.rmtree(cdir, ignore_errors=True)
    os.makedirs(cdir)
    t0 = time.time()
    hist = os.path.join(cdir, "hist.txt")
    prim, cfg = run["prim"], run["cfg"]
    t = run[tier] if tier in run else run["quick"]
    stats = {}
    with open(hist, "w") as hf:
        ncorpus = 0
        for corpus in (os.path.join(ROOT, "corpus", prim + ".txt"), os.path.join(ROOT, "corpus", name + ".txt")):
            if os.path.exists(corpus) and run.get("corpus", True):
                for l in open(corpus):
                    if l.strip() and not l.startswith("#"):
                        hf.write(l.strip() + "\n"); ncorpus += 1
        hf.flush()
        if t.get("explore"):
            r = subprocess.run([MODELRUN, run.get("explore_cmd", "explore"), prim, cfg, str(t["explore"])], stdout=hf, stderr=subprocess.PIPE, text=True)
            try:
                stats = json.loads(r.stderr.strip().splitlines()[-1])
            except Exception:
                stats = {"error": r.stderr[-300:]}
        if t.get("random"):
            cnt, ln = t["random"]
            rcfg = run.get("random_cfg", cfg)
            subprocess.run([MODELRUN, "random", prim, rcfg, str(seed), str(cnt), str(ln)], stdout=hf, stderr=subprocess.PIPE, text=True)
        if t.get("scale"):
            # scale walks: fill the wait queue with many waiters, then prefer what wakes most
            cnt, ln, target = t["scale"]
            scfg = run.get("scale_cfg", run.get("random_cfg", cfg))
            subprocess.run([MODELRUN, "scale", prim, scfg, str(seed), str(cnt), str(ln), str(target)], stdout=hf, stderr=subprocess.PIPE, text=True)
    if prim == "mpmc":
        retag_file(hist)
    nhist = sum(1 for _ in open(hist))
    result = dict(name=name, prim=prim, cfg=cfg, histories=nhist, corpus=ncorpus, explore=stats, flavours={}, mismatches=[], dir=cdir)
    flavours = list(run["flavours"])
    if tier == "thorough" and prim != "ringbuf" and os.path.exists(HARNESS_RELEASE):
        # the same histories on the release build (no debug assertions, wrapping arithmetic)
        flavours += [f + "@release" for f in run["flavours"]]
    def run_flavour(fl):
        obs = os.path.join(cdir, f"obs.{fl}.txt")
        binary, base_fl = (HARNESS_RELEASE, fl.split("@")[0]) if fl.endswith("@release") else (HARNESS, fl)
        with open(hist) as hf, open(obs, "w") as of:
            r = subprocess.run([binary, base_fl], stdin=hf, stdout=of, stderr=subprocess.PIPE, text=True)
        crashed = r.returncode != 0
        # the comparison re-runs the model on every history: shard big files over several processes
        k = max(1, min(8, nhist // 150000))
        with concurrent.futures.ThreadPoolExecutor(max_workers=k) as cex:
            parts = list(cex.map(lambda i: sh([MODELRUN, "compare", hist, obs, str(k), str(i)]), range(k)))
        mm = []
        summ = {"histories": 0, "steps_compared": 0, "mismatches": 0}
        for r2 in parts:
            for l in r2.stdout.splitlines():
                try:
                    d = json.loads(l); d["flavour"] = fl; mm.append(d)
                except Exception:
                    pass
            try:
                s1 = json.loads(r2.stderr.strip().splitlines()[-1])
                for kk in summ:
                    summ[kk] += s1.get(kk, 0)
            except Exception:
                summ = {"error": r2.stderr[-300:]}
                break
        summ["crashed"] = crashed
        if crashed:
            mm.insert(0, dict(line=0, step=-1, key="crash", expected="", observed=f"harness exit {r.returncode}: {r.stderr[-200:]}", history="", flavour=fl))
        return fl, summ, mm

    # flavours of one run are independent processes over the same history file
    with concurrent.futures.ThreadPoolExecutor(max_workers=max(1, min(6, len(flavours)))) as fex:
        flavour_results = list(fex.map(run_flavour, flavours))
    for fl, summ, mm in flavour_results:
        result["flavours"][fl] = summ
        perkey = {}
        for d in mm:
            perkey.setdefault(d["key"], [])
            if len(perkey[d["key"]]) < 40:
                perkey[d["key"]].append(d)
        for lst in perkey.values():
            result["mismatches"] += lst
        result.setdefault("mismatch_count", 0)
        result["mismatch_count"] += len(mm)
    # samples + operation histogram
    samples, ophist = [], {}
    with open(hist) as hf:
        for i, l in enumerate(hf):
            parts = l.strip().split(";")
            if i % max(1, nhist // 3) == 0 and len(samples) < 3:
                samples.append(l.strip())
            for o in parts[3:]:
                c = o.split(" ")[0]
                ophist[c] = ophist.get(c, 0) + 1
    result["samples"] = samples
    result["op_histogram"] = ophist
    result["wall_s"] = round(time.time() - t0, 2)
    json.dump(result, open(done, "w"))
    # disk hygiene: histories and traces are reproducible from (binaries, spec, tier, seed); keep
    # them only when something mismatched, and keep at most three cached results per run name
    if not result["mismatches"]:
        for f in glob.glob(os.path.join(cdir, "*.txt")):
            try:
                os.remove(f)
            except OSError:
                pass
    try:
        olds = sorted(glob.glob(os.path.join(BUILD, "corr", name + "-" + "?" * 24)), key=os.path.getmtime, reverse=True)
        for d in olds[3:]:
            if d != cdir:
                shutil.rmtree(d, ignore_errors=True)
    except OSError:
        pass
    return result


def correspondence(prop, tier, seed):
    spec = PROPS[prop]
    runs = [r for r in RUNS if r["name"] in spec.get("runs", []) or r["prim"] in spec.get("prims", [])]
    if not runs:
        return dict(runs=[], problems=[], mismatches=[], evaluations=0, states=0, transitions=0)
    err = build_tools()
    if err:
        return dict(runs=[], problems=[err], mismatches=[], evaluations=0, states=0, transitions=0, build_failed=True)
    corpus_hash = sha(*[open(f, "rb").read() for f in sorted(glob.glob(os.path.join(ROOT, "corpus", "*.txt")))])
    bin_hash = sha(file_sha(MODELRUN), file_sha(HARNESS), corpus_hash)
    with concurrent.futures.ThreadPoolExecutor(max_workers=16) as ex:
        results = list(ex.map(lambda r: one_run(r, tier, seed, bin_hash), runs))
    keys = set(spec["keys"])
    mism, problems = [], []
    evaluations = states = transitions = 0
    exhaustive = True
    for r in results:
        evaluations += r["histories"] * len(r["flavours"])
        st = r.get("explore") or {}
        states += st.get("states", 0); transitions += st.get("transitions", 0)
        if st and not st.get("exhaustive", False):
            exhaustive = False
        for fl, summ in r["flavours"].items():
            if summ.get("error"):
                problems.append(f"{r['name']}/{fl}: compare failed: {summ['error']}")
        for m in r["mismatches"]:
            if (m.get("flavour") or "").split("@")[0] in spec.get("exclude_flavours", []):
                continue
            if m["key"] in keys or m["key"] in ("crash", "shape"):
                m = dict(m); m["run"] = r["name"]; mism.append(m)
    return dict(runs=results, problems=problems, mismatches=mism, evaluations=evaluations,
                states=states, transitions=transitions, exhaustive=exhaustive)


# --------------------------------------------------------------------------- known findings
def load_known():
    p = os.path.join(ROOT, "known_findings.json")
    if os.path.exists(p):
        return json.load(open(p))
    return {"findings": []}


# --------------------------------------------------------------------------- main
def main():
    args = sys.argv[1:]
    if not args:
        print(__doc__); sys.exit(2)
    prop = args[0]
    tier = os.environ.get("VERIF_TIER", "quick")
    if "--tier" in args:
        tier = args[args.index("--tier") + 1]
    seed = int(os.environ.get("VERIF_SEED", "1"))
    os.environ["VERIF_TIER_INTERNAL"] = tier
    if prop not in PROPS:
        print(f"unknown property {prop}"); sys.exit(2)
    spec = PROPS[prop]
    t0 = time.time()
    os.makedirs(os.path.join(BUILD, "replay"), exist_ok=True)
    os.makedirs(os.path.join(ROOT, "evidence"), exist_ok=True)

    proof = proof_part(prop)
    corr = correspondence(prop, tier, seed)
    extra_problems, extra_cov = [], {}
    for hook in spec.get("extra", []):
        mod = __import__(hook)
        pr, cov = mod.run(prop, tier, seed)
        extra_problems += pr; extra_cov.update(cov)

    # open known findings (known_findings.json): a problem whose class AND instance are listed
    # there is reported as KNOWN-FINDING and does not count as a violation; nothing else is
    # suppressed by it
    known_instance_hits = []
    opened = [k for k in load_known().get("findings", []) if k.get("property") == prop and k.get("status") == "open"]
    if opened:
        rest = []
        for p in extra_problems:
            kl = p.get("klass") if isinstance(p, dict) else None
            hit = None
            if kl and ":" in kl:
                cls, inst = kl.split(":", 1)
                for k in opened:
                    if k.get("klass") == cls and inst in k.get("instances", []):
                        hit = k
            if hit:
                known_instance_hits.append((hit, p))
            else:
                rest.append(p)
        extra_problems = rest

    violations = []
    # (a) correspondence broken on this property's observables
    if corr["mismatches"]:
        first = corr["mismatches"][0]
        violations.append(dict(kind="correspondence", detail=first, count=len(corr["mismatches"])))
    for p in corr["problems"]:
        violations.append(dict(kind="correspondence-infrastructure", detail=p))
    # (b) proof obligations
    for p in proof["problems"]:
        violations.append(dict(kind="proof", detail=p))
    if proof["discharged"] != proof["obligations"]:
        violations.append(dict(kind="proof", detail=f"{proof['discharged']}/{proof['obligations']} obligations discharged"))
    for p in extra_problems:
        violations.append(dict(kind=p.get("kind", "extra"), detail=p))

    # divergence follow-up: the implementation's state differs from the model's on keys this
    # property does not compare; explore what this property's monitor says after the divergence
    failing = None
    if not violations and spec.get("monitor") and corr["runs"]:
        try:
            import monitors
            failing = monitors.followup(prop, spec, corr, tier, seed)
        except Exception as e:
            failing = None
            violations.append(dict(kind="search-error", detail=repr(e)))
        if failing:
            violations.append(dict(kind="monitor", detail=dict(
                what="implementation state diverges from the model on observables outside this property's keys; "
                     "the property's monitor fails on a continuation of a divergent history",
                history=failing["history"], run=failing["run"], flavour=failing["flavour"])))
    # failing-input search: a monitor evaluated on the implementation's own traces
    if violations and failing is None and spec.get("monitor") and corr["runs"]:
        # the exploration is model-guided: where the implementation has silently diverged, the
        # failing continuation may only have been executed after a shorter path on which it had
        # not.  Continue the mismatching histories themselves (any observable) and let the monitor decide.
        try:
            import monitors
            failing = monitors.followup(prop, spec, corr, tier, seed, all_keys=True)
        except Exception as e:
            failing = None
            violations.append(dict(kind="search-error", detail=repr(e)))

    if violations and failing is None and spec.get("monitor"):
        try:
            import monitors
            failing = monitors.search(prop, spec, corr, tier, seed)
        except Exception as e:  # the search is best effort
            failing = None
            violations.append(dict(kind="search-error", detail=repr(e)))

    if violations and failing is None and spec.get("monitor"):
        # a threaded run that is not linearizable usually hides a sequential defect: replay the
        # operations of that run sequentially (generation order, and in the order in which the
        # threads started them) and evaluate this property's monitor on the real crate's trace
        try:
            import monitors
            for p in extra_problems:
                det = p.get("detail") if isinstance(p, dict) else None
                if p.get("kind") != "threads" or not isinstance(det, dict) or not det.get("history"):
                    continue
                failing = monitors.sequentialize(prop, spec, det["history"], det.get("observed_stamps_and_results", ""), det.get("run", ""))
                if failing:
                    break
        except Exception as e:
            violations.append(dict(kind="search-error", detail=repr(e)))

    if failing is None and spec.get("direct_keys"):
        # for these observables a disagreement with the (proved) model IS the failing input:
        # the history ends in a step where the real crate's is_terminated() / allocation count /
        # queue content / link structure is not what the property demands
        for m in corr["mismatches"]:
            if m["key"] in spec["direct_keys"] and m.get("history"):
                if m["key"] == "a" and m.get("observed") in ("0", ""):
                    continue
                if m["key"] == "r":
                    # a result mismatch is a failing input by itself only when the real crate
                    # PANICS in a contract-respecting call that is not a poll (a poll may panic
                    # legitimately on a diverged implementation: "polled after completion")
                    hp = m["history"].split(";")
                    step = m.get("step", -1)
                    opw = hp[3 + step].split() if 0 <= step < len(hp) - 3 else hp[-1].split()
                    polls = {"event": ["1"], "mutex": ["1"], "semaphore": ["1"], "mpmc": ["1", "5", "31"],
                             "oneshot": ["3"], "state": ["4"], "timer": ["3"]}
                    if hp[0] in polls and not (m.get("observed", "").split()[:1] == ["3"] and m.get("expected", "").split()[:1] != ["3"]
                                               and opw[:1] and opw[0] not in polls[hp[0]]):
                        continue
                parts = m["history"].split(";"); parts[2] = "A"; h = ";".join(parts)
                fl = m["flavour"].split("@")[0]
                obs = subprocess.run([HARNESS, fl], input=h + "\n", capture_output=True, text=True).stdout.strip()
                model = subprocess.run([MODELRUN, "print", "-"], input=h + "\n", capture_output=True, text=True).stdout.strip()
                failing = dict(history=h, flavour=fl, run=m.get("run"), key=m["key"], expected=m["expected"], observed=m["observed"],
                               implementation_trace=obs.split(";"), model_trace=model.split(";"), klass="direct:" + m["key"])
                break
    if failing is None:
        for p in extra_problems:
            if isinstance(p, dict) and p.get("failing_input") and p.get("rustc_accepts") is not False:
                failing = dict(history=p["failing_input"], klass=p.get("type", "") + ":" + p.get("trait", ""), detail=p)
                break
    known = load_known()
    known_hits = []
    if violations:
        import monitors
        violations, known_hits = monitors.filter_known(prop, violations, failing, known)

    samples = []
    for r in corr["runs"]:
        samples += r.get("samples", [])[:2]
    if not samples:
        samples = proof["theorems"][:5] or ["(no histories)"]
    coverage = dict(
        obligations=proof["obligations"], discharged=proof["discharged"],
        checker_cmd=f"make -C coq {' '.join(f[:-2] + '.vo' for f in spec.get('coq_files', []))}  (coqc 8.16.1, Print Assumptions per theorem)",
        trusted_base=TRUSTED_BASE + spec.get("trusted_extra", []),
        theorems=proof["theorems"], axioms_used=proof["axioms"],
        statement_hashes=proof.get("stmt_hashes", {}),
        evaluations=corr["evaluations"] + extra_cov.pop("evaluations", 0),
        distinct_nontrivial=corr["states"] + extra_cov.pop("distinct_nontrivial", 0),
        rule="model-guided breadth-first exploration over the extracted Coq model to a fixpoint of its state (distinct = distinct model states, all of which have >=1 created future except the initial one); every transition out of every state is executed on the real crate after replaying a shortest path, plus seeded random contract-respecting histories",
        states=corr["states"], transitions=corr["transitions"],
        traces_validated_against_impl=corr["evaluations"],
        exhaustive=bool(corr.get("exhaustive")) and bool(corr["runs"]),
        compared_keys=spec.get("keys", []),
        runs=[dict(name=r["name"], cfg=r["cfg"], histories=r["histories"], explore=r.get("explore"), flavours=r["flavours"], ops=r.get("op_histogram"), wall_s=r.get("wall_s")) for r in corr["runs"]],
        samples=samples[:8],
    )
    coverage.update(extra_cov)
    if proof.get("coqchk"):
        coverage["coqchk"] = proof["coqchk"]
    if spec["level"] == "other":
        coverage["explanation"] = spec.get("explanation", "")
    ev = dict(property_id=prop, tier=tier, seed=seed, level=spec["level"], coverage=coverage,
              assumptions=spec.get("assumptions", []), wall_s=round(time.time() - t0, 2),
              violations=len(violations), known_findings=sorted(set([k["id"] for k in known_hits] + [k["id"] for k, _ in known_instance_hits])))
    json.dump(ev, open(os.path.join(ROOT, "evidence", f"{prop}.json"), "w"), indent=1)

    for k in known_hits:
        print(f"KNOWN-FINDING: property={prop} {k['what']}")
    for k, p in known_instance_hits:
        print(f"KNOWN-FINDING: property={prop} {k['id']} {p['klass']} (failing input: {p.get('failing_input')})")
    if not violations:
        print(f"OK property={prop} tier={tier} obligations={proof['discharged']}/{proof['obligations']} histories={corr['evaluations']} states={corr['states']} transitions={corr['transitions']} wall={ev['wall_s']}s")
        sys.exit(0)
    rp = os.path.join(BUILD, "replay", f"{prop}-{sha(json.dumps(violations, sort_keys=True, default=str))[:10]}.json")
    json.dump(dict(property=prop, tier=tier, seed=seed, failing_input=failing, violations=violations,
                   how_to_replay="tools/replay.py <this file>"), open(rp, "w"), indent=1, default=str)
    suffix = "" if failing else " no-failing-input-found"
    print(f"VIOLATION property={prop} replay={rp}{suffix}")
    for v in violations[:5]:
        print("  ", json.dumps(v, default=str)[:600])
    sys.exit(1)


if __name__ == "__main__":
    main()
