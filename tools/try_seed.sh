#!/bin/bash
# usage: tools/try_seed.sh <name> <source-dir-with patch.diff, tests/seeded_*.rs, NOTES.md> <property> [checks to run...]
# 1. confirms the seeded change in a scratch worktree (suite green with it; demo red with it, green without)
# 2. applies it to /repo, runs the given checks, restores /repo
# 3. stores patch + demo + meta.json under seeded/<name>/
set -u
name=$1; src=$2; prop=$3; shift 3
checks=("$@")
out=/verif/seeded/$name
mkdir -p $out
[ -f $src/patch.diff ] && cp $src/patch.diff $out/patch.diff
demo=$(ls $src/tests/seeded*.rs | head -1)
cp $demo $out/
cp $src/NOTES.md $out/NOTES.md 2>/dev/null || true
if [ "${SEED_PHASE:-both}" != "check" ]; then
wt=/tmp/confirm-$name
git -C /repo worktree remove --force $wt >/dev/null 2>&1
git -C /repo worktree add -q --detach $wt HEAD || exit 2
export CARGO_TARGET_DIR=$wt/target CARGO_NET_OFFLINE=true
cd $wt
cp $demo tests/
dn=$(basename $demo .rs)
clean=$(cargo test --offline --test $dn 2>&1 | grep -E "^test result" | tail -1)
git apply $out/patch.diff || { echo "patch does not apply"; exit 2; }
withp=$(cargo test --offline --test $dn 2>&1 | grep -E "^test result" | tail -1)
rm tests/$dn.rs
suite=$(cargo test --offline 2>&1 | grep -E "^test result" | awk '{p+=$4; f+=$6} END {print "passed " p " failed " f}')
cd /verif
git -C /repo worktree remove --force $wt
echo "demo without change: $clean"; echo "demo with change:    $withp"; echo "existing suite with change: $suite"
printf '%s\n%s\n%s\n' "$clean" "$withp" "$suite" > $out/.confirm
fi
[ "${SEED_PHASE:-both}" = "confirm" ] && exit 0
{ read -r clean; read -r withp; read -r suite; } < $out/.confirm
git -C /repo status --short | grep -q . && { echo "/repo is not clean"; exit 2; }
# run the checks against /repo with the change applied
git -C /repo apply $out/patch.diff || { echo "cannot apply to /repo"; exit 2; }
declare -A res
for c in "${checks[@]}"; do
  o=$(./check $c 2>&1 | grep -E "^(OK|VIOLATION)" | tail -1 | cut -c1-200)
  res[$c]="$o"; echo "  $c: $o"
done
git -C /repo checkout -- .
# evidence files written while the change was applied describe the changed tree: restore
git -C /verif checkout -- evidence coq/Gen 2>/dev/null
python3 - "$name" "$prop" "$clean" "$withp" "$suite" "${checks[@]}" <<PY
import json, sys, subprocess, os
name, prop, clean, withp, suite = sys.argv[1:6]
checks = sys.argv[6:]
meta = dict(name=name, breaks_property=prop, demo_without_change=clean, demo_with_change=withp, existing_suite_with_change=suite,
            needs_to_manifest=open("/verif/seeded/%s/NOTES.md" % name).read()[:1500] if os.path.exists("/verif/seeded/%s/NOTES.md" % name) else "",
            ran=["tools/try_seed.sh (scratch worktree confirmation; then git -C /repo apply, ./check <id>, git -C /repo checkout -- .)"],
            checks_run=checks)
json.dump(meta, open("/verif/seeded/%s/meta.json" % name, "w"), indent=1)
PY
for c in "${checks[@]}"; do echo "$c ${res[$c]}"; done > $out/check_results.txt
rm -f $out/.confirm
