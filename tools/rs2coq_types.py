#!/usr/bin/env python3
"""rs2coq_types.py <repo/src> <out.v> : translate the type-level facts of the crate into Coq.

Extracts, from the Rust sources as they are now (a tolerant tokenizer, not a Rust front end):
  * every struct / enum (generic parameters, field types) outside test modules and outside
    the cfg(futures_intrusive_verif) hook items,
  * every `unsafe impl ... Send/Sync for ...` with its bounds,
  * which types implement Future / Stream, which are `pub`,
  * traits with Send/Sync supertraits (for `dyn Trait`).
The output is a Coq file of data (no logic): coq/Gen/TypesGen.v.  The auto-trait rules
that interpret it live in coq/Model/AutoTraits.v; the rustc probe (tools/c16_probe.py)
checks translator + rules against the compiler."""
import sys, os, re

KNOWN_LEAF = {  # name -> Coq term
    "bool": "TLeaf true true true", "usize": "TLeaf true true true", "u64": "TLeaf true true true",
    "u32": "TLeaf true true true", "u8": "TLeaf true true true", "isize": "TLeaf true true true",
    "i32": "TLeaf true true true", "AtomicUsize": "TLeaf true true true", "Waker": "TLeaf true true true",
    "Instant": "TLeaf true true true", "PhantomPinned": "TPinned", "()": "TLeaf true true true",
}
WRAP1 = {"Option": "TWrap", "MaybeUninit": "TWrap", "NonNull": "TPtr", "UnsafeCell": "TUnsafeCell",
         "PhantomData": "TPhantom", "Arc": "TArc", "VecDeque": "TBoxLike", "Vec": "TBoxLike", "Box": "TBoxLike"}
MUTEX_NAMES = {"Mutex", "LockApiMutex"}


def strip(src):
    out, i, n = [], 0, len(src)
    while i < n:
        if src.startswith("//", i):
            while i < n and src[i] != "\n":
                i += 1
        elif src.startswith("/*", i):
            j = src.find("*/", i + 2); i = n if j < 0 else j + 2
        elif src[i] == '"':
            i += 1
            while i < n and src[i] != '"':
                i += 2 if src[i] == "\\" else 1
            i += 1; out.append('""')
        elif src[i] == "'" and i + 2 < n and (src[i + 2] == "'" or (src[i + 1] == "\\" and src.find("'", i + 2) - i <= 4)):
            j = src.find("'", i + 2); i = j + 1; out.append("' '")
        else:
            out.append(src[i]); i += 1
    return "".join(out)


TOK = re.compile(r"'[A-Za-z_][A-Za-z0-9_]*|[A-Za-z_][A-Za-z0-9_]*|::|->|=>|[{}()\[\]<>,;:&*=+!#?.|$@^%/~-]|\d+")


def tokens(src):
    return TOK.findall(src)


class P:
    def __init__(self, toks):
        self.t, self.i = toks, 0

    def peek(self, k=0):
        return self.t[self.i + k] if self.i + k < len(self.t) else None

    def next(self):
        x = self.peek(); self.i += 1; return x

    def skip_balanced(self, open_, close):
        depth = 0
        while self.i < len(self.t):
            x = self.next()
            if x == open_:
                depth += 1
            elif x == close:
                depth -= 1
                if depth == 0:
                    return


def split_top(toks, sep=","):
    parts, cur, depth = [], [], 0
    for x in toks:
        if x in "<([{":
            depth += 1
        elif x in ">)]}":
            depth -= 1
        if x == sep and depth == 0:
            parts.append(cur); cur = []
        else:
            cur.append(x)
    if cur:
        parts.append(cur)
    return parts


def angle_args(toks, i):
    """toks[i] == '<' : return (list of arg token lists, index after '>')"""
    depth, j = 0, i
    while j < len(toks):
        if toks[j] == "<":
            depth += 1
        elif toks[j] == ">":
            depth -= 1
            if depth == 0:
                break
        j += 1
    return split_top(toks[i + 1:j]), j + 1


class Ctx:
    def __init__(self):
        self.structs = {}   # qualified name -> dict
        self.impls = []     # dict(trait, target(qname), bounds[(idx, trait)])
        self.futures = set()
        self.dyn_traits = {}  # trait name -> (send, sync)
        self.scopes = {}    # module path tuple -> {short name -> qname}


def parse_type(toks, params, resolve):
    """returns Coq term string"""
    toks = [t for t in toks if not t.startswith("'") or t == "'"]
    if not toks:
        return "TLeaf true true true"
    if toks[0] == "&":
        rest = toks[1:]
        if rest and rest[0] == "mut":
            return "TRefMut (%s)" % parse_type(rest[1:], params, resolve)
        return "TRef (%s)" % parse_type(rest, params, resolve)
    if toks[0] == "*":
        return "TPtr (%s)" % parse_type(toks[2:], params, resolve)
    if toks[0] == "dyn":
        name = [t for t in toks[1:] if re.match(r"[A-Za-z_]", t)]
        tn = None
        # last path segment before '<' or '+'
        j = 1
        segs = []
        while j < len(toks) and toks[j] not in ("<", "+"):
            if toks[j] != "::":
                segs.append(toks[j])
            j += 1
        tn = segs[-1] if segs else "?"
        send = "Send" in toks
        sync = "Sync" in toks
        ss = resolve("dyn:" + tn)
        if ss:
            send, sync = send or ss[0], sync or ss[1]
        return "TLeaf %s %s false" % (str(send).lower(), str(sync).lower())
    if toks[0] == "(":
        inner = toks[1:-1]
        parts = split_top(inner)
        if not parts:
            return "TLeaf true true true"
        return "TTuple [%s]" % "; ".join(parse_type(p, params, resolve) for p in parts)
    if toks[0] == "[":
        inner = toks[1:-1]
        elem = split_top(inner, ";")[0]
        return "TWrap (%s)" % parse_type(elem, params, resolve)
    # path
    j, segs = 0, []
    while j < len(toks) and toks[j] != "<":
        if toks[j] != "::":
            segs.append(toks[j])
        j += 1
    name = segs[-1]
    args = []
    if j < len(toks) and toks[j] == "<":
        raw, _ = angle_args(toks, j)
        for a in raw:
            a = [t for t in a if not t.startswith("'")]
            if not a:
                continue
            if "=" in a:      # associated type binding
                continue
            args.append(a)
    if len(segs) == 1 and name in params and not args:
        return "TParam %d" % params.index(name)
    if name in KNOWN_LEAF and not args:
        return KNOWN_LEAF[name]
    if name in WRAP1 and len(args) == 1:
        return "%s (%s)" % (WRAP1[name], parse_type(args[0], params, resolve))
    if name in MUTEX_NAMES and len(args) == 2:
        return "TLockMutex (%s) (%s)" % (parse_type(args[0], params, resolve), parse_type(args[1], params, resolve))
    q = resolve(name)
    if q is None:
        raise SystemExit("rs2coq_types: cannot resolve type %s in %s" % (name, " ".join(toks)))
    return "TUser \"%s\" [%s]" % (q, "; ".join(parse_type(a, params, resolve) for a in args))


def generics(p):
    """at '<' : returns (params [names], bounds [(name, [traits])])"""
    params, bounds = [], []
    if p.peek() != "<":
        return params, bounds
    raw, j = angle_args(p.t, p.i)
    p.i = j
    for a in raw:
        if not a:
            continue
        if a[0].startswith("'") or a[0] == "const":
            continue
        name = a[0]
        params.append(name)
        if ":" in a:
            bs = [t for t in a[a.index(":") + 1:] if re.match(r"[A-Za-z_]", t)]
            bounds.append((name, bs))
    return params, bounds


def where_clause(p, stop):
    bounds = []
    if p.peek() != "where":
        return bounds
    p.next()
    start = p.i
    depth = 0
    while p.peek() is not None:
        x = p.peek()
        if depth == 0 and x in stop:
            break
        if x in "<([":
            depth += 1
        elif x in ">)]":
            depth -= 1
        p.next()
    for clause in split_top(p.t[start:p.i]):
        if ":" in clause and clause and not clause[0].startswith("'"):
            name = clause[0]
            bs = [t for t in clause[clause.index(":") + 1:] if re.match(r"[A-Za-z_]", t)]
            bounds.append((name, bs))
    return bounds


def parse_file(path, rel, ctx, pass_no, raw_items):
    src = strip(open(path).read())
    toks = tokens(src)
    p = P(toks)
    modstack = [tuple(rel)]
    depthstack = []
    depth = 0
    pending_attr_skip = False
    is_pub = False
    while p.peek() is not None:
        x = p.peek()
        if x == "#":
            # attribute
            j = p.i + 1
            if p.peek(1) == "!":
                j += 1
            if j < len(p.t) and p.t[j] == "[":
                q = P(p.t); q.i = j; q.skip_balanced("[", "]")
                attr = p.t[j:q.i]
                if "futures_intrusive_verif" in attr or ("test" in attr and "cfg" in attr):
                    pending_attr_skip = True
                p.i = q.i
                continue
        if x == "pub":
            is_pub = True; p.next()
            if p.peek() == "(":
                p.skip_balanced("(", ")")
            continue
        if x == "mod" and re.match(r"[A-Za-z_]", p.peek(1) or ""):
            name = p.peek(1)
            if p.peek(2) == "{":
                p.i += 3
                if pending_attr_skip or name == "tests":
                    p.i -= 1; p.skip_balanced("{", "}")
                else:
                    depth += 1
                    modstack.append(modstack[-1] + (name,)); depthstack.append(depth)
                pending_attr_skip = False; is_pub = False
                continue
        if x in ("struct", "enum") and re.match(r"[A-Za-z_]", p.peek(1) or ""):
            kind = p.next(); name = p.next()
            nlife = 0
            if p.peek() == "<":
                rawg, _ = angle_args(p.t, p.i)
                nlife = sum(1 for a in rawg if a and a[0].startswith("'"))
            params, gb = generics(p)
            wb = where_clause(p, ("{", "(", ";"))
            body_open = p.peek()
            start = p.i
            if body_open == "{":
                p.skip_balanced("{", "}")
            elif body_open == "(":
                p.skip_balanced("(", ")")
                wb += where_clause(p, (";",))
            body = p.t[start:p.i]
            if not pending_attr_skip:
                q = "::".join(modstack[-1] + (name,))
                ctx.scopes.setdefault(modstack[-1], {})[name] = q
                raw_items.append(("type", kind, q, modstack[-1], params, body, is_pub, nlife, gb + wb))
            pending_attr_skip = False; is_pub = False
            continue
        if x == "trait" and re.match(r"[A-Za-z_]", p.peek(1) or ""):
            p.next(); name = p.next()
            generics(p)
            sup = []
            if p.peek() == ":":
                while p.peek() not in ("{", "where", None):
                    sup.append(p.next())
            ctx.dyn_traits[name] = ("Send" in sup, "Sync" in sup)
            while p.peek() not in ("{", None):
                p.next()
            p.skip_balanced("{", "}")
            pending_attr_skip = False; is_pub = False
            continue
        if x == "impl" or (x == "unsafe" and p.peek(1) == "impl"):
            unsafe = x == "unsafe"
            p.next()
            if unsafe:
                p.next()
            params, gb = generics(p)
            # trait path (or inherent type) up to 'for' / '{' / 'where'
            start = p.i
            depth2 = 0
            while p.peek() is not None:
                y = p.peek()
                if depth2 == 0 and y in ("for", "{", "where"):
                    break
                if y == "<":
                    depth2 += 1
                elif y == ">":
                    depth2 -= 1
                p.next()
            first = p.t[start:p.i]
            target = None
            if p.peek() == "for":
                p.next()
                start = p.i; depth2 = 0
                while p.peek() is not None:
                    y = p.peek()
                    if depth2 == 0 and y in ("{", "where"):
                        break
                    if y == "<":
                        depth2 += 1
                    elif y == ">":
                        depth2 -= 1
                    p.next()
                target = p.t[start:p.i]
            wb = where_clause(p, ("{",))
            if p.peek() == "{":
                p.skip_balanced("{", "}")
            if target is not None and not pending_attr_skip:
                tsegs = [t for t in first if re.match(r"[A-Za-z_]", t)]
                trait = None
                for cand in ("Send", "Sync", "Unpin", "Future", "Stream", "FusedFuture", "FusedStream"):
                    if cand in first[:first.index("<")] if "<" in first else cand in first:
                        trait = cand
                if trait:
                    raw_items.append(("impl", trait, target, modstack[-1], params, gb + wb, unsafe))
                else:
                    # impl of a trait declared by the crate (e.g. `Timer`): its bounds guard what the
                    # trait's methods may hand out
                    head = first[:first.index("<")] if "<" in first else first
                    names = [t for t in head if re.match(r"[A-Za-z_]", t)]
                    if names:
                        raw_items.append(("timpl", names[-1], target, modstack[-1], params, gb + wb, unsafe))
            pending_attr_skip = False; is_pub = False
            continue
        if x == "{":
            depth += 1
        elif x == "}":
            if depthstack and depthstack[-1] == depth:
                depthstack.pop(); modstack.pop()
            depth -= 1
        if x in (";", "}"):
            pending_attr_skip = False; is_pub = False
        if x == "fn":
            # skip function bodies entirely (local items are irrelevant)
            while p.peek() not in ("{", ";", None):
                p.next()
            if p.peek() == "{":
                p.skip_balanced("{", "}")
            else:
                p.next()
            pending_attr_skip = False; is_pub = False
            continue
        p.next()


def main():
    srcdir, out = sys.argv[1], sys.argv[2]
    ctx = Ctx()
    raw = []
    for root, _, files in sorted(os.walk(srcdir)):
        for f in sorted(files):
            if not f.endswith(".rs"):
                continue
            path = os.path.join(root, f)
            rel = os.path.relpath(path, srcdir)[:-3].split(os.sep)
            if rel[-1] == "mod":
                rel = rel[:-1]
            if rel == ["lib"]:
                rel = []
            parse_file(path, rel, ctx, 0, raw)

    allnames = {}
    for it in raw:
        if it[0] == "type":
            allnames.setdefault(it[2].split("::")[-1], []).append(it[2])

    def resolver(mod):
        def resolve(name):
            if name.startswith("dyn:"):
                return ctx.dyn_traits.get(name[4:])
            m = tuple(mod)
            while True:
                sc = ctx.scopes.get(m, {})
                if name in sc:
                    return sc[name]
                if not m:
                    break
                m = m[:-1]
            cands = allnames.get(name, [])
            if len(cands) == 1:
                return cands[0]
            if cands:
                # imported name: prefer the shared flavour from inside a `shared` module
                pref = [c for c in cands if ("shared" in c) == ("shared" in mod)]
                same_file = [c for c in pref if c.split("::")[:2] == list(mod)[:2]]
                pick = (same_file or pref or cands)
                return sorted(pick, key=len)[0] if "shared" not in mod else sorted(pick, key=len)[-1]
            return None
        return resolve

    structs, impls, futures = [], [], set()
    meta = {}
    for it in raw:
        if it[0] != "type":
            continue
        _, kind, q, mod, params, body, is_pub, nlife, tbounds = it
        meta[q] = dict(lifetimes=nlife, params=params, bounds=tbounds)
        res = resolver(mod)
        fields = []
        if kind == "struct":
            if body and body[0] == "{":
                for fld in split_top(body[1:-1]):
                    fld = [t for t in fld]
                    # drop attributes / visibility
                    while fld and fld[0] in ("pub", "#"):
                        if fld[0] == "#":
                            d = 0; k = 1
                            while k < len(fld):
                                if fld[k] == "[":
                                    d += 1
                                elif fld[k] == "]":
                                    d -= 1
                                    if d == 0:
                                        break
                                k += 1
                            fld = fld[k + 1:]
                        else:
                            fld = fld[1:]
                            if fld and fld[0] == "(":
                                d = 0; k = 0
                                while k < len(fld):
                                    if fld[k] == "(":
                                        d += 1
                                    elif fld[k] == ")":
                                        d -= 1
                                        if d == 0:
                                            break
                                    k += 1
                                fld = fld[k + 1:]
                    if ":" in fld:
                        fields.append(parse_type(fld[fld.index(":") + 1:], params, res))
            elif body and body[0] == "(":
                for fld in split_top(body[1:-1]):
                    while fld and fld[0] == "pub":
                        fld = fld[1:]
                    if fld:
                        fields.append(parse_type(fld, params, res))
        else:  # enum
            for var in split_top(body[1:-1]):
                var = [t for t in var]
                if "(" in var:
                    inner = var[var.index("(") + 1:len(var) - 1 - var[::-1].index(")")]
                    for fld in split_top(inner):
                        if fld:
                            fields.append(parse_type(fld, params, res))
                elif "{" in var:
                    inner = var[var.index("{") + 1:len(var) - 1 - var[::-1].index("}")]
                    for fld in split_top(inner):
                        if ":" in fld:
                            fields.append(parse_type(fld[fld.index(":") + 1:], params, res))
        structs.append((q, params, fields, is_pub))

    sdict = {s[0]: s for s in structs}
    for it in raw:
        if it[0] != "impl":
            continue
        _, trait, target, mod, iparams, bounds, unsafe = it
        res = resolver(mod)
        tt = [t for t in target if not t.startswith("'")]
        j, segs = 0, []
        while j < len(tt) and tt[j] != "<":
            if tt[j] != "::":
                segs.append(tt[j])
            j += 1
        if not segs:
            continue
        q = res(segs[-1])
        if q is None or q not in sdict:
            continue
        args = []
        if j < len(tt) and tt[j] == "<":
            rawargs, _ = angle_args(tt, j)
            args = [a for a in rawargs if a and not a[0].startswith("'") and "_" != "".join(a)]
        if trait in ("Future", "Stream"):
            futures.add(q)
            continue
        if trait not in ("Send", "Sync", "Unpin"):
            continue
        # map impl parameter names to positions in the target's argument list
        pos = {}
        for k, a in enumerate(args):
            if len(a) == 1:
                pos[a[0]] = k
        bl = []
        for name, bs in bounds:
            for b in bs:
                if b in ("Send", "Sync", "Unpin") and name in pos:
                    bl.append((pos[name], b))
        impls.append((trait, q, sorted(set(bl))))

    timpls = []
    for it in raw:
        if it[0] != "timpl":
            continue
        _, tname, target, mod, iparams, bounds, unsafe = it
        if tname not in ctx.dyn_traits:
            continue
        res = resolver(mod)
        tt = [t for t in target if not t.startswith("'")]
        j, segs = 0, []
        while j < len(tt) and tt[j] != "<":
            if tt[j] != "::":
                segs.append(tt[j])
            j += 1
        if not segs:
            continue
        q = res(segs[-1])
        if q is None or q not in sdict:
            continue
        args = []
        if j < len(tt) and tt[j] == "<":
            rawargs, _ = angle_args(tt, j)
            args = [a for a in rawargs if a and not a[0].startswith("'")]
        pos = {a[0]: k for k, a in enumerate(args) if len(a) == 1}
        bl = sorted(set((pos[n], b) for n, bs in bounds for b in bs if b in ("Send", "Sync", "Unpin") and n in pos))
        timpls.append((tname, q, bl))

    with open(out, "w") as f:
        f.write("(* GENERATED by tools/rs2coq_types.py from %s on every run -- do not edit. *)\n" % srcdir)
        f.write("From Coq Require Import List String.\nFrom FI Require Import AutoTraits.\nImport ListNotations.\nOpen Scope string_scope.\n\n")
        f.write("Definition structs : list sdef := [\n")
        rows = []
        for q, params, fields, is_pub in structs:
            rows.append("  mkS \"%s\" %d [%s] %s %s" % (q, len(params), "; ".join(fields), str(is_pub).lower(), str(q in futures).lower()))
        f.write(";\n".join(rows) + "\n].\n\n")
        f.write("Definition impls : list idef := [\n")
        rows = []
        for trait, q, bl in impls:
            rows.append("  mkI %s \"%s\" [%s]" % (trait, q, "; ".join("(%d, %s)" % b for b in bl)))
        f.write(";\n".join(rows) + "\n].\n\n")
        f.write("(* traits declared by the crate with their Send / Sync supertraits (what `dyn Trait` is) *)\n")
        f.write("Definition dyn_traits : list (string * (bool * bool)) := [\n")
        f.write(";\n".join("  (\"%s\", (%s, %s))" % (n, "true" if a else "false", "true" if b else "false") for n, (a, b) in sorted(ctx.dyn_traits.items())))
        f.write("\n].\n\n")
        f.write("Definition trait_impls : list timpl := [\n")
        f.write(";\n".join("  mkT \"%s\" \"%s\" [%s]" % (t, q, "; ".join("(%d, %s)" % b for b in bl)) for t, q, bl in timpls))
        f.write("\n].\n")
    import json
    info = []
    for q, params, fields, is_pub in structs:
        m = meta[q]
        kinds = []
        for pn in params:
            bs = [b for (n, bl) in m["bounds"] if n == pn for b in bl]
            kinds.append("mutex" if "RawMutex" in bs or pn == "MutexType" else ("ringbuf" if "RingBuf" in bs else "plain"))
        info.append(dict(name=q, lifetimes=m["lifetimes"], params=params, kinds=kinds, public=is_pub, future=q in futures))
    json.dump(dict(types=info, impls=[dict(trait=t, target=q, bounds=bl) for t, q, bl in impls],
                   trait_impls=[dict(trait=t, target=q, bounds=bl) for t, q, bl in timpls],
                   dyn_traits={n: dict(send=a, sync=b) for n, (a, b) in sorted(ctx.dyn_traits.items())}),
              open(os.path.splitext(out)[0] + ".json", "w"), indent=1)
    print("rs2coq_types: %d types, %d Send/Sync impls, %d futures/streams -> %s" % (len(structs), len(impls), len(futures), out))


if __name__ == "__main__":
    main()
