"""Threaded correspondence (the `schedules` dimension): the real crate, thread-safe flavour, is
driven by 2-4 OS threads over ONE primitive; every operation is stamped with a global ticket
before the call and after it returned; `modelrun linearize` then searches (Wing-Gong, memoised on
model states) for a total order of the executed operations that respects real time and in which
the extracted Coq model produces, for every operation, the observed result code, wake list and
value movements.  The theorems speak about every interleaving of whole critical sections; this
check is what ties "the crate's operations ARE such critical sections" to the code under real
thread schedules (sampled - a supporting check, not a proof).

Thread programs come from random contract-respecting walks of the sequential model; operations
on a future slot run on the thread that owns the slot."""
import os, json, subprocess, tempfile, shutil, concurrent.futures

ROOT = os.path.dirname(os.path.dirname(os.path.abspath(__file__)))
BUILD = os.path.join(ROOT, "build")
MODELRUN = os.path.join(BUILD, "ocaml", "modelrun")
HARNESS = os.path.join(BUILD, "harness-target", "debug", "fi-harness")
HARNESS_RELEASE = os.path.join(BUILD, "harness-target", "release", "fi-harness")

# primitive -> [(model cfg, flavour)]
PAR_RUNS = {
    "event": [("4 0", "sync"), ("4 1", "sync")],
    "mutex": [("4 0", "sync"), ("4 1", "sync")],
    "semaphore": [("4 0 0 3 6 3 1", "sync"), ("4 1 0 3 6 3 1", "sync"), ("4 0 0 3 6 3 1", "shared"), ("4 1 1 3 6 3 1", "shared")],
    "mpmc": [("2 2 1 0 0", "sync"), ("2 2 0 0 0", "sync"), ("2 2 2 0 0", "growing")],
    "oneshot": [("4 0 1 0 0", "sync"), ("4 1 1 0 0", "sync")],
    "timer": [("4 3 3", "sync")],
    "state": [("4 0 0 2", "sync"), ("3 0 0 3", "sync")],
}


def prims_of(prop):
    from registry import PROPS, RUNS
    spec = PROPS[prop]
    prims = set(spec.get("prims", []))
    for r in RUNS:
        if r["name"] in spec.get("runs", []):
            prims.add(r["prim"])
    return [p for p in sorted(prims) if p in PAR_RUNS]


def one(prim, cfg, flavour, seed, count, length, threads, binary, workdir):
    tag = "%s-%s-%s-%d%s" % (prim, cfg.replace(" ", "_"), flavour, threads, "-release" if binary == HARNESS_RELEASE else "")
    hist = os.path.join(workdir, tag + ".hist"); obs = os.path.join(workdir, tag + ".obs")
    with open(hist, "w") as hf:
        subprocess.run([MODELRUN, "pargen", prim, cfg, str(seed), str(count), str(length), str(threads)], stdout=hf, stderr=subprocess.DEVNULL)
    if prim == "mpmc":
        from check import retag_file
        retag_file(hist)
    with open(hist) as hf, open(obs, "w") as of:
        r = subprocess.run([binary, flavour], stdin=hf, stdout=of, stderr=subprocess.PIPE, text=True)
    if r.returncode != 0:
        return dict(tag=tag, crashed=True, detail="harness exit %d: %s" % (r.returncode, r.stderr[-300:]), fails=[], summ={})
    r2 = subprocess.run([MODELRUN, "linearize", hist, obs], capture_output=True, text=True)
    fails = []
    for l in r2.stdout.splitlines():
        try:
            fails.append(json.loads(l))
        except Exception:
            pass
    try:
        summ = json.loads(r2.stderr.strip().splitlines()[-1])
    except Exception:
        return dict(tag=tag, crashed=True, detail="linearize failed: " + r2.stderr[-300:], fails=[], summ={})
    return dict(tag=tag, crashed=False, fails=fails[:3], summ=summ)


def run(prop, tier="quick", seed=1):
    prims = prims_of(prop)
    if not prims:
        return [], {}
    workdir = tempfile.mkdtemp(prefix="threads-", dir=BUILD)
    try:
        jobs = []
        count = 1500 if tier == "quick" else 12000
        for prim in prims:
            for cfg, fl in PAR_RUNS[prim]:
                for threads in ((3,) if tier == "quick" else (2, 3, 4)):
                    jobs.append((prim, cfg, fl, seed + threads, count, 16 if tier == "quick" else 20, threads, HARNESS))
                    if tier == "thorough" and os.path.exists(HARNESS_RELEASE):
                        jobs.append((prim, cfg, fl, seed + 100 + threads, count, 20, threads, HARNESS_RELEASE))
        with concurrent.futures.ThreadPoolExecutor(max_workers=8) as ex:
            results = list(ex.map(lambda j: one(*j, workdir), jobs))
        problems = []
        tot = dict(histories=0, operations=0, with_overlap=0, not_linearizable=0)
        for r in results:
            if r["crashed"]:
                problems.append(dict(kind="threads", detail=dict(run=r["tag"], what=r["detail"])))
                continue
            for k in tot:
                tot[k] += r["summ"].get(k, 0)
            for f in r["fails"][:1]:
                problems.append(dict(kind="threads", detail=dict(
                    run=r["tag"], what="a threaded run of the real crate is not linearizable with respect to the model",
                    history=f.get("history"), observed_stamps_and_results=f.get("observed"),
                    replay="write history / observed to two files and run build/ocaml/modelrun linearize <hist> <obs>")))
        cov = dict(threaded_histories=tot["histories"], threaded_operations=tot["operations"],
                   threaded_histories_with_overlapping_operations=tot["with_overlap"],
                   threaded_not_linearizable=tot["not_linearizable"], threaded_runs=[r["tag"] for r in results])
        return problems[:5], cov
    finally:
        shutil.rmtree(workdir, ignore_errors=True)


if __name__ == "__main__":
    import sys
    sys.path.insert(0, os.path.join(ROOT, "tools"))
    pr, cov = run(sys.argv[1] if len(sys.argv) > 1 else "C05", sys.argv[2] if len(sys.argv) > 2 else "quick")
    print(json.dumps(cov, indent=1)); [print(json.dumps(p)[:800]) for p in pr]
