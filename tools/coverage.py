#!/usr/bin/env python3
"""Generator-quality measurement (not a check): line coverage of /repo/src reached by the
histories of the correspondence runs.  Builds the harness with `-C instrument-coverage` on the
nightly toolchain (its llvm-tools match), executes the quick-tier histories of every run on
every flavour, merges the profiles and writes build/coverage.json + coverage/SUMMARY.md with the
per-file line coverage and the uncovered lines (hook code and #[cfg(test)] excluded).
  tools/coverage.py [--tier quick|thorough] [--limit N histories per run]"""
import os, sys, json, subprocess, glob, shutil, re, concurrent.futures

ROOT = os.path.dirname(os.path.dirname(os.path.abspath(__file__)))
sys.path.insert(0, os.path.join(ROOT, "tools"))
from registry import RUNS  # noqa: E402
from check import retag_file  # noqa: E402

BUILD = os.path.join(ROOT, "build")
MODELRUN = os.path.join(BUILD, "ocaml", "modelrun")
COVT = os.path.join(BUILD, "cov-target")
COV = os.path.join(BUILD, "cov")
TOOLS = os.path.expanduser("~/.rustup/toolchains/nightly-x86_64-unknown-linux-gnu/lib/rustlib/x86_64-unknown-linux-gnu/bin")


def main():
    tier = "quick"
    limit = 200000
    if "--tier" in sys.argv:
        tier = sys.argv[sys.argv.index("--tier") + 1]
    if "--limit" in sys.argv:
        limit = int(sys.argv[sys.argv.index("--limit") + 1])
    env = dict(os.environ, CARGO_NET_OFFLINE="true", CARGO_TARGET_DIR=COVT,
               RUSTFLAGS="-C instrument-coverage --cfg futures_intrusive_verif -A warnings")
    r = subprocess.run(["cargo", "+nightly", "build", "--offline"], cwd=os.path.join(ROOT, "harness"), env=env, capture_output=True, text=True)
    if r.returncode != 0:
        print(r.stderr[-2000:]); return 2
    binary = os.path.join(COVT, "debug", "fi-harness")
    shutil.rmtree(COV, ignore_errors=True)
    os.makedirs(os.path.join(COV, "prof"))

    def one(run):
        t = run[tier] if tier in run else run["quick"]
        hist = os.path.join(COV, run["name"] + ".hist")
        with open(hist, "w") as hf:
            for corpus in (os.path.join(ROOT, "corpus", run["prim"] + ".txt"), os.path.join(ROOT, "corpus", run["name"] + ".txt")):
                if os.path.exists(corpus) and run.get("corpus", True):
                    for l in open(corpus):
                        if l.strip() and not l.startswith("#"):
                            hf.write(l.strip() + "\n")
            hf.flush()
            if t.get("explore"):
                subprocess.run([MODELRUN, "explore", run["prim"], run["cfg"], str(t["explore"])], stdout=hf, stderr=subprocess.DEVNULL)
            if t.get("random"):
                cnt, ln = t["random"]
                subprocess.run([MODELRUN, "random", run["prim"], run.get("random_cfg", run["cfg"]), "1", str(cnt), str(ln)], stdout=hf, stderr=subprocess.DEVNULL)
        if run["prim"] == "mpmc":
            retag_file(hist)
        lines = open(hist).read().splitlines()[:limit]
        n = len(lines)
        for fl in run["flavours"]:
            e = dict(os.environ, LLVM_PROFILE_FILE=os.path.join(COV, "prof", "%s-%s-%%p.profraw" % (run["name"], fl)))
            subprocess.run([binary, fl], input="\n".join(lines) + "\n", text=True, stdout=subprocess.DEVNULL, stderr=subprocess.DEVNULL, env=e)
        os.remove(hist)
        return n

    with concurrent.futures.ThreadPoolExecutor(max_workers=16) as ex:
        counts = list(ex.map(one, RUNS))
    prof = os.path.join(COV, "all.profdata")
    raws = glob.glob(os.path.join(COV, "prof", "*.profraw"))
    r = subprocess.run([os.path.join(TOOLS, "llvm-profdata"), "merge", "-sparse", "-o", prof] + raws, capture_output=True, text=True)
    if r.returncode != 0:
        print(r.stderr[-2000:]); return 2
    r = subprocess.run([os.path.join(TOOLS, "llvm-cov"), "export", "-format=lcov", "-instr-profile=" + prof, binary,
                        "-ignore-filename-regex=(\\.cargo|rustc|/verif/)"], capture_output=True, text=True)
    if r.returncode != 0:
        print(r.stderr[-2000:]); return 2
    files, cur = {}, None
    for l in r.stdout.splitlines():
        if l.startswith("SF:"):
            cur = l[3:]; files.setdefault(cur, {})
        elif l.startswith("DA:") and cur:
            ln, c = l[3:].split(",")[:2]
            files[cur][int(ln)] = files[cur].get(int(ln), 0) + int(c)
    out, summary = {}, []
    for f, das in sorted(files.items()):
        if not f.startswith("/repo/src"):
            continue
        src = open(f).read().splitlines()
        # exclude hook code and tests: lines inside items following #[cfg(futures_intrusive_verif)] / #[cfg(test)]
        excl = set()
        i = 0
        while i < len(src):
            if re.search(r"#\[cfg\((futures_intrusive_verif|test)\)\]", src[i]):
                depth, j, opened = 0, i + 1, False
                while j < len(src):
                    depth += src[j].count("{") - src[j].count("}")
                    if "{" in src[j]:
                        opened = True
                    excl.add(j + 1)
                    if (opened and depth <= 0) or (not opened and src[j].rstrip().endswith(";")):
                        break
                    j += 1
                i = j
            i += 1
        das = {k: v for k, v in das.items() if k not in excl}
        unc = sorted(k for k, v in das.items() if v == 0)
        rel = f[len("/repo/src/"):]
        out[rel] = dict(lines=len(das), covered=len(das) - len(unc), uncovered=unc)
        summary.append((rel, len(das), len(das) - len(unc), unc))
    json.dump(dict(tier=tier, histories=sum(counts), files=out), open(os.path.join(BUILD, "coverage.json"), "w"), indent=1)
    os.makedirs(os.path.join(ROOT, "coverage"), exist_ok=True)
    with open(os.path.join(ROOT, "coverage", "SUMMARY.md"), "w") as f:
        tl = sum(s[1] for s in summary); tc = sum(s[2] for s in summary)
        f.write("# Line coverage of /repo/src by the correspondence histories (%s tier, %d histories, all flavours)\n\n" % (tier, sum(counts)))
        f.write("Generated by tools/coverage.py (instrumented harness, nightly llvm-tools); hook code and tests excluded.\n")
        f.write("This measures the generator, it decides nothing.\n\n")
        f.write("total: %d / %d lines (%.1f%%)\n\n| file | covered | lines | uncovered lines |\n|---|---|---|---|\n" % (tc, tl, 100.0 * tc / max(1, tl)))
        for rel, n, c, unc in summary:
            f.write("| %s | %d | %d | %s |\n" % (rel, c, n, " ".join(map(str, unc[:60])) + (" ..." if len(unc) > 60 else "")))
    shutil.rmtree(COV, ignore_errors=True)
    print("coverage: %d/%d lines" % (tc, tl))
    return 0


if __name__ == "__main__":
    sys.exit(main())
