#!/bin/bash
# Build the Rust harness against /repo's current working tree, hooks enabled.
set -e
cd "$(dirname "$0")/../harness"
export CARGO_NET_OFFLINE=true
export CARGO_TARGET_DIR=/verif/build/harness-target
export RUSTFLAGS="--cfg futures_intrusive_verif -A warnings"
cp /repo/Cargo.lock Cargo.lock 2>/dev/null || true
out=$(cargo build --offline 2>&1) || { echo "$out" | grep -v conda | tail -40; echo "build_harness: cargo build failed"; exit 1; }
if [ "${1:-}" = "release" ]; then
  out=$(cargo build --offline --release 2>&1) || { echo "$out" | grep -v conda | tail -40; echo "build_harness: cargo build --release failed"; exit 1; }
fi
