#!/usr/bin/env python3
"""Adds the minimised failing histories the checks found for the seeded changes
(seeded/*/check_results.txt -> build/replay/*.json) to corpus/<run>.txt, so that every later
correspondence run executes them first (regression corpus).  Run by hand after a seeding round;
never at check time."""
import os, re, json, glob, sys

ROOT = os.path.dirname(os.path.dirname(os.path.abspath(__file__)))
sys.path.insert(0, os.path.join(ROOT, "tools"))
from registry import RUNS  # noqa: E402

runs = {r["name"]: r for r in RUNS}
added = 0
for cr in sorted(glob.glob(os.path.join(ROOT, "seeded", "*", "check_results.txt"))):
    seed = os.path.basename(os.path.dirname(cr))
    for rp in re.findall(r"replay=(\S+\.json)", open(cr).read()):
        if not os.path.exists(rp):
            continue
        d = json.load(open(rp))
        fi = d.get("failing_input") or {}
        h, run = fi.get("history"), fi.get("run")
        if not isinstance(h, str) or run not in runs or h.count(";") < 3:
            continue
        parts = h.split(";")
        if parts[0] != runs[run]["prim"] or parts[1] != runs[run]["cfg"]:
            continue
        parts[2] = "A"
        line = ";".join(parts)
        path = os.path.join(ROOT, "corpus", run + ".txt")
        have = open(path).read() if os.path.exists(path) else "# minimised regression histories for run %s\n" % run
        if line in have:
            continue
        with open(path, "w") as f:
            f.write(have + "# %s (%s)\n%s\n" % (seed, d.get("property"), line))
        added += 1
print("corpus: %d histories added" % added)
