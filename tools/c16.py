#!/usr/bin/env python3
"""C16 machinery (called from tools/check.py as an `extra` hook, or stand-alone):
  1. regenerate coq/Gen/TypesGen.v from /repo/src (translator),
  2. ask rustc: a generated probe crate evaluates `Type<witnesses>: Send/Sync/Unpin` for every
     public generic type of the crate and every assignment of auto-trait bits to its
     parameters that witness types can realise (autoref specialisation, no compile errors),
  3. ask Coq: the same table from `holds` (coq/Gen/C16Table.v, vm_compute),
  4. compare: a difference means the translator or the auto-trait rules misrepresent rustc,
  5. diagnostics: the falsifying (type, trait, assignment) triples of C16_sound /
     C16_complete / C16_futures_not_unpin, each confirmed against the rustc table: that is the
     failing input (a program rustc accepts although soundness forbids it)."""
import os, sys, json, subprocess, re, itertools, hashlib, time

ROOT = os.path.dirname(os.path.dirname(os.path.abspath(__file__)))
COQ = os.path.join(ROOT, "coq")
PROBE = os.path.join(ROOT, "build", "c16probe")


def sh(cmd, **kw):
    return subprocess.run(cmd, shell=isinstance(cmd, str), capture_output=True, text=True, **kw)


def rust_path(q):
    segs = q.split("::")
    name = segs[-1]
    top = segs[0]
    if "shared" in segs:
        return "futures_intrusive::channel::shared::" + name
    if top in ("sync", "channel", "timer", "buffer"):
        return "futures_intrusive::%s::%s" % (top, name)
    return None


# The documented flavours (part of the specification, like the `promised` table): every `Local*`
# alias is the NoopLock flavour and never crosses threads; every other alias is the parking_lot
# flavour, is Send + Sync for a Send payload and IS the named generic instantiation.
FI = "futures_intrusive::"
PL = "parking_lot::RawMutex"
ALIASES = [
    ("sync::LocalMutex<u8>", False, False, None),
    ("sync::Mutex<u8>", True, True, "sync::GenericMutex<%s, u8>" % PL),
    ("sync::LocalSemaphore", False, False, None),
    ("sync::Semaphore", True, True, "sync::GenericSemaphore<%s>" % PL),
    ("sync::SharedSemaphore", True, True, "sync::GenericSharedSemaphore<%s>" % PL),
    ("sync::LocalManualResetEvent", False, False, None),
    ("sync::ManualResetEvent", True, True, "sync::GenericManualResetEvent<%s>" % PL),
    ("timer::LocalTimerService", False, False, None),
    ("timer::TimerService", True, True, "timer::GenericTimerService<%s>" % PL),
    ("channel::LocalChannel<u8, [u8; 2]>", False, False, None),
    ("channel::Channel<u8, [u8; 2]>", True, True, "channel::GenericChannel<%s, u8, futures_intrusive::buffer::ArrayBuf<u8, [u8; 2]>>" % PL),
    ("channel::LocalUnbufferedChannel<u8>", False, False, None),
    ("channel::UnbufferedChannel<u8>", True, True, "channel::GenericChannel<%s, u8, futures_intrusive::buffer::ArrayBuf<u8, [u8; 0]>>" % PL),
    ("channel::shared::Sender<u8>", True, True, "channel::shared::GenericSender<%s, u8, futures_intrusive::buffer::GrowingHeapBuf<u8>>" % PL),
    ("channel::shared::Receiver<u8>", True, True, "channel::shared::GenericReceiver<%s, u8, futures_intrusive::buffer::GrowingHeapBuf<u8>>" % PL),
    ("channel::shared::UnbufferedSender<u8>", True, True, "channel::shared::GenericSender<%s, u8, futures_intrusive::buffer::GrowingHeapBuf<u8>>" % PL),
    ("channel::shared::UnbufferedReceiver<u8>", True, True, "channel::shared::GenericReceiver<%s, u8, futures_intrusive::buffer::GrowingHeapBuf<u8>>" % PL),
    ("channel::LocalOneshotChannel<u8>", False, False, None),
    ("channel::OneshotChannel<u8>", True, True, "channel::GenericOneshotChannel<%s, u8>" % PL),
    ("channel::shared::OneshotSender<u8>", True, True, "channel::shared::GenericOneshotSender<%s, u8>" % PL),
    ("channel::shared::OneshotReceiver<u8>", True, True, "channel::shared::GenericOneshotReceiver<%s, u8>" % PL),
    ("channel::LocalOneshotBroadcastChannel<u8>", False, False, None),
    ("channel::OneshotBroadcastChannel<u8>", True, True, "channel::GenericOneshotBroadcastChannel<%s, u8>" % PL),
    ("channel::shared::OneshotBroadcastSender<u8>", True, True, "channel::shared::GenericOneshotBroadcastSender<%s, u8>" % PL),
    ("channel::shared::OneshotBroadcastReceiver<u8>", True, True, "channel::shared::GenericOneshotBroadcastReceiver<%s, u8>" % PL),
    ("channel::LocalStateBroadcastChannel<u8>", False, False, None),
    ("channel::StateBroadcastChannel<u8>", True, True, "channel::GenericStateBroadcastChannel<%s, u8>" % PL),
    ("channel::shared::StateSender<u8>", True, True, "channel::shared::GenericStateSender<%s, u8>" % PL),
    ("channel::shared::StateReceiver<u8>", True, True, "channel::shared::GenericStateReceiver<%s, u8>" % PL),
    ("sync::MutexGuard<'static, u8>", True, True, "sync::GenericMutexGuard<'static, %s, u8>" % PL),
    ("sync::MutexLockFuture<'static, u8>", True, None, "sync::GenericMutexLockFuture<'static, %s, u8>" % PL),
    ("sync::LocalMutexLockFuture<'static, u8>", False, False, None),
    ("sync::SemaphoreAcquireFuture<'static>", True, None, "sync::GenericSemaphoreAcquireFuture<'static, %s>" % PL),
    ("sync::LocalSemaphoreAcquireFuture<'static>", False, False, None),
    ("sync::WaitForEventFuture<'static>", True, None, "sync::GenericWaitForEventFuture<'static, %s>" % PL),
    ("sync::LocalWaitForEventFuture<'static>", False, False, None),
]

# user-implementable traits of the crate whose `dyn` form is probed
DYN_PATHS = {"Clock": "futures_intrusive::timer::Clock"}

# crate-declared traits whose impls are probed as well (rust path of the trait)
TRAIT_PATHS = {"Timer": "futures_intrusive::timer::Timer", "LocalTimer": "futures_intrusive::timer::LocalTimer"}


def load_timpls(types):
    d = json.load(open(os.path.join(COQ, "Gen", "TypesGen.json")))
    names = {t["name"]: t for t in types}
    seen, out = set(), []
    for ti in d.get("trait_impls", []):
        if ti["trait"] in TRAIT_PATHS and ti["target"] in names and (ti["trait"], ti["target"]) not in seen:
            seen.add((ti["trait"], ti["target"]))
            out.append((ti["trait"], names[ti["target"]]))
    # a guarded trait that lost all its impls must show up, too
    return out


# witness marker for bits (send, sync, unpin)
def marker(b):
    s, y, u = b
    base = {(1, 1): "u8", (0, 0): "*mut ()", (1, 0): "std::cell::Cell<u8>", (0, 1): "std::sync::MutexGuard<'static, u8>"}[(s, y)]
    return base if u else "(%s, std::marker::PhantomPinned)" % base


def witness(kind, b, tparam_witness):
    m = marker(b)
    if kind == "mutex":
        return "RM<%s>" % m
    if kind == "ringbuf":
        return "RB<%s, %s>" % (tparam_witness or "Mk<u8>", m)
    return "Mk<%s>" % m


def assignments_for(n, trait):
    """subset of the 8^n assignments that is probed: Send/Sync vary the (send, sync) bits,
    Unpin varies the unpin bits"""
    if trait == "Unpin":
        return [[(1, 1, u) for u in us] for us in itertools.product((1, 0), repeat=n)]
    return [[(s, y, 1) for (s, y) in sy] for sy in itertools.product(((1, 1), (1, 0), (0, 1), (0, 0)), repeat=n)]


def load_types():
    d = json.load(open(os.path.join(COQ, "Gen", "TypesGen.json")))
    out = []
    for t in d["types"]:
        rp = rust_path(t["name"])
        if not t["public"] or rp is None:
            continue
        if t["name"].startswith(("intrusive_", "noop_lock", "buffer::ring_buffer::ArrayBuf")):
            continue
        if t["name"].endswith(("RecvWaitQueueEntry", "SendWaitQueueEntry", "RecvPollState", "SendPollState")):
            continue
        out.append(dict(t, path=rp))
    return out


def gen_probe(types):
    os.makedirs(os.path.join(PROBE, "src"), exist_ok=True)
    with open(os.path.join(PROBE, "Cargo.toml"), "w") as f:
        f.write('[package]\nname = "c16probe"\nversion = "0.1.0"\nedition = "2021"\n\n[workspace]\n\n[dependencies]\n'
                'futures-intrusive = { path = "/repo" }\nlock_api = "0.4.1"\nparking_lot = "0.12.0"\n\n[profile.dev]\nopt-level = 0\ndebug = 0\n')
    lock = "/repo/Cargo.lock"
    if os.path.exists(lock):
        subprocess.run(["cp", lock, os.path.join(PROBE, "Cargo.lock")])
    lines = ['''#![allow(dead_code, unused_imports, non_camel_case_types)]
use std::marker::PhantomData;
pub struct Mk<X>(PhantomData<X>);
impl<X> Clone for Mk<X> { fn clone(&self) -> Self { Mk(PhantomData) } }
pub struct RM<X>(PhantomData<X>);
unsafe impl<X> lock_api::RawMutex for RM<X> {
    const INIT: RM<X> = RM(PhantomData);
    type GuardMarker = lock_api::GuardSend;
    fn lock(&self) {}
    fn try_lock(&self) -> bool { true }
    unsafe fn unlock(&self) {}
}
pub struct RB<T, X>(PhantomData<fn() -> T>, PhantomData<X>);
impl<T, X> futures_intrusive::buffer::RingBuf for RB<T, X> {
    type Item = T;
    fn new() -> Self { RB(PhantomData, PhantomData) }
    fn with_capacity(_c: usize) -> Self { RB(PhantomData, PhantomData) }
    fn capacity(&self) -> usize { 0 }
    fn len(&self) -> usize { 0 }
    fn can_push(&self) -> bool { false }
    fn push(&mut self, _i: T) {}
    fn pop(&mut self) -> T { panic!() }
}
struct P<T: ?Sized>(PhantomData<T>);
trait YesSend { fn is_send(&self) -> u8 { 1 } }   impl<T: ?Sized + Send> YesSend for P<T> {}
trait NoSend { fn is_send(&self) -> u8 { 0 } }    impl<T: ?Sized> NoSend for &P<T> {}
trait YesSync { fn is_sync(&self) -> u8 { 1 } }   impl<T: ?Sized + Sync> YesSync for P<T> {}
trait NoSync { fn is_sync(&self) -> u8 { 0 } }    impl<T: ?Sized> NoSync for &P<T> {}
trait YesUnpin { fn is_unpin(&self) -> u8 { 1 } } impl<T: ?Sized + Unpin> YesUnpin for P<T> {}
trait NoUnpin { fn is_unpin(&self) -> u8 { 0 } }  impl<T: ?Sized> NoUnpin for &P<T> {}
fn main() {
''']
    n = 0
    for t in types:
        for trait in ("Send", "Sync", "Unpin"):
            for a in assignments_for(len(t["params"]), trait):
                ws = []
                tw = None
                for kind, b in zip(t["kinds"], a):
                    if kind == "plain":
                        tw = witness("plain", b, None)
                # second pass so that a ring buffer's Item is the T witness
                for kind, b in zip(t["kinds"], a):
                    ws.append(witness(kind, b, tw))
                args = ["'static"] * t["lifetimes"] + ws
                ty = t["path"] + ("<%s>" % ", ".join(args) if args else "")
                code = "".join("%d%d%d" % b for b in a)
                lines.append('    println!("%s %s %s {}", (&P::<%s>(PhantomData)).is_%s());' % (t["name"], trait, code or "-", ty, trait.lower()))
                n += 1
    for k, (tname, path) in enumerate(sorted(TRAIT_PATHS.items())):
        lines.insert(1, "trait YesT%d { fn is_t%d(&self) -> u8 { 1 } } impl<T: ?Sized + %s> YesT%d for P<T> {}\n"
                        "trait NoT%d { fn is_t%d(&self) -> u8 { 0 } }  impl<T: ?Sized> NoT%d for &P<T> {}\n" % (k, k, path, k, k, k, k))
    tidx = {t: k for k, t in enumerate(sorted(TRAIT_PATHS))}
    for tname, t in load_timpls(types):
        for a in assignments_for(len(t["params"]), "Send"):
            tw = None
            for kind, b in zip(t["kinds"], a):
                if kind == "plain":
                    tw = witness("plain", b, None)
            ws = [witness(kind, b, tw) for kind, b in zip(t["kinds"], a)]
            args = ["'static"] * t["lifetimes"] + ws
            ty = t["path"] + ("<%s>" % ", ".join(args) if args else "")
            code = "".join("%d%d%d" % b for b in a)
            lines.append('    println!("%s impl:%s %s {}", (&P::<%s>(PhantomData)).is_t%d());' % (t["name"], tname, code or "-", ty, tidx[tname]))
            n += 1
    # the documented aliases
    for alias, _, _, same in ALIASES:
        ty = FI + alias
        for trait in ("Send", "Sync"):
            lines.append('    println!("alias:%s %s - {}", (&P::<%s>(PhantomData)).is_%s());' % (alias.replace(" ", ""), trait, ty, trait.lower()))
            n += 1
        if same:
            lines.append('    println!("alias:%s Same - {}", (std::any::TypeId::of::<%s>() == std::any::TypeId::of::<%s>()) as u8);' % (alias.replace(" ", ""), ty, FI + same))
            n += 1
    # user-implementable traits the crate type-erases and shares between threads
    for tname, path in sorted(DYN_PATHS.items()):
        for trait in ("Send", "Sync"):
            lines.append('    println!("trait:%s %s - {}", (&P::<dyn %s>(PhantomData)).is_%s());' % (tname, trait, path, trait.lower()))
            n += 1
    lines.append("}\n")
    with open(os.path.join(PROBE, "src", "main.rs"), "w") as f:
        f.write("\n".join(lines))
    return n


def run_probe():
    env = dict(os.environ, CARGO_NET_OFFLINE="true", CARGO_TARGET_DIR=os.path.join(ROOT, "build", "c16probe-target"), RUSTFLAGS="-A warnings")
    r = subprocess.run(["cargo", "run", "--offline", "-q"], cwd=PROBE, env=env, capture_output=True, text=True)
    if r.returncode != 0:
        return None, (r.stderr or r.stdout)[-3000:]
    table = {}
    for l in r.stdout.splitlines():
        p = l.split()
        if len(p) == 4:
            table[(p[0], p[1], p[2])] = p[3] == "1"
    return table, None


def gen_coq_table(types):
    """Coq file printing one line per probed instance"""
    rows = []
    for t in types:
        for trait in ("Send", "Sync", "Unpin"):
            for a in assignments_for(len(t["params"]), trait):
                env = "[" + "; ".join("mkB %s %s %s" % tuple("true" if x else "false" for x in b) for b in a) + "]"
                code = "".join("%d%d%d" % b for b in a) or "-"
                rows.append('("%s %s %s", holds structs impls %s "%s" %s)' % (t["name"], trait, code, trait, t["name"], env))
    timpls = load_timpls(types)
    for tname, t in timpls:
        for a in assignments_for(len(t["params"]), "Send"):
            env = "[" + "; ".join("mkB %s %s %s" % tuple("true" if x else "false" for x in b) for b in a) + "]"
            code = "".join("%d%d%d" % b for b in a) or "-"
            rows.append('("%s impl:%s %s", timpl_holds trait_impls "%s" "%s" %s)' % (t["name"], tname, code, tname, t["name"], env))
    with open(os.path.join(COQ, "Gen", "C16Table.v"), "w") as f:
        f.write("(* GENERATED by tools/c16.py: the instances probed with rustc, evaluated by the Coq rules *)\n")
        f.write("From Coq Require Import List String Bool.\nFrom FI Require Import AutoTraits TypesGen.\nImport ListNotations.\nOpen Scope string_scope.\n")
        f.write("Definition rows : list (string * bool) := [\n  " + ";\n  ".join(rows) + "\n].\n")
        f.write("Definition yes := map fst (filter (fun r => snd r) rows).\n")
        f.write("Eval vm_compute in yes.\n")
    r = sh("coqc -Q Common FI -Q Model FI -Q Gen FI Gen/C16Table.v", cwd=COQ)
    if r.returncode != 0:
        return None, (r.stdout + r.stderr)[-2000:]
    yes = set(re.findall(r'"([^"]+)"', r.stdout))
    table = {}
    for t in types:
        for trait in ("Send", "Sync", "Unpin"):
            for a in assignments_for(len(t["params"]), trait):
                code = "".join("%d%d%d" % b for b in a) or "-"
                table[(t["name"], trait, code)] = ("%s %s %s" % (t["name"], trait, code)) in yes
    for tname, t in timpls:
        for a in assignments_for(len(t["params"]), "Send"):
            code = "".join("%d%d%d" % b for b in a) or "-"
            table[(t["name"], "impl:" + tname, code)] = ("%s impl:%s %s" % (t["name"], tname, code)) in yes
    for alias, snd, syn, same in ALIASES:
        a = alias.replace(" ", "")
        if snd is not None:
            table[("alias:" + a, "Send", "-")] = snd
        if syn is not None:
            table[("alias:" + a, "Sync", "-")] = syn
        if same:
            table[("alias:" + a, "Same", "-")] = True
    dj = json.load(open(os.path.join(COQ, "Gen", "TypesGen.json"))).get("dyn_traits", {})
    for tname in DYN_PATHS:
        d = dj.get(tname, {})
        table[("trait:" + tname, "Send", "-")] = bool(d.get("send"))
        table[("trait:" + tname, "Sync", "-")] = bool(d.get("sync"))
    for f in ("C16Table.vo", "C16Table.glob", ".C16Table.aux", "C16Table.vok", "C16Table.vos"):
        try:
            os.remove(os.path.join(COQ, "Gen", f))
        except OSError:
            pass
    return table, None


def diagnostics():
    r = sh("coqc -Q Common FI -Q Model FI -Q Gen FI Gen/C16Diag.v", cwd=COQ)
    for f in ("C16Diag.vo", "C16Diag.glob", ".C16Diag.aux", "C16Diag.vok", "C16Diag.vos"):
        try:
            os.remove(os.path.join(COQ, "Gen", f))
        except OSError:
            pass
    if r.returncode != 0:
        return None
    out = r.stdout
    res = []
    for tag in ("UNSOUND", "INCOMPLETE", "UNPINNED", "ERASED"):
        m = re.search(r'\("%s",(.*?)\)\s*:\s' % tag, out, re.S)
        body = m.group(1) if m else ""
        lst = []
        for item in re.findall(r'"([^"]+)"', body):
            parts = " ".join(item.split()).split(" ")
            if tag == "ERASED":
                lst.append(tuple(parts))
            elif len(parts) == 3:
                lst.append(tuple(parts))
            else:
                lst.append((parts[0], "Unpin", "-"))
        res.append(lst)
    return res


def rust_expr(types, name, trait, code):
    t = [x for x in types if x["name"] == name]
    if not t:
        return None
    t = t[0]
    a = [tuple(int(c) for c in code[i:i + 3]) for i in range(0, len(code), 3)] if code != "-" else []
    tw = None
    for kind, b in zip(t["kinds"], a):
        if kind == "plain":
            tw = witness("plain", b, None)
    ws = [witness(kind, b, tw) for kind, b in zip(t["kinds"], a)]
    args = ["'static"] * t["lifetimes"] + ws
    return "fn assert_%s<X: %s>() {} assert_%s::<%s%s>();" % (trait.lower(), trait, trait.lower(), t["path"], "<%s>" % ", ".join(args) if args else "")


def run(prop="C16", tier="quick", seed=1):
    """returns (problems, coverage)"""
    t0 = time.time()
    problems, cov = [], {}
    r = sh(["python3", os.path.join(ROOT, "tools", "rs2coq_types.py"), "/repo/src", os.path.join(COQ, "Gen", "TypesGen.v")])
    if r.returncode != 0:
        return [dict(kind="translator", detail=(r.stdout + r.stderr)[-800:])], cov
    # make sure AutoTraits / TypesGen are compiled for the side computations
    sh("make Gen/TypesGen.vo Model/AutoTraitsSpec.vo", cwd=COQ)
    types = load_types()
    nprobes = gen_probe(types)
    rt, err = run_probe()
    if rt is None:
        return [dict(kind="rustc-probe", detail="probe crate does not build: " + err)], cov
    ct, err = gen_coq_table(types)
    if ct is None:
        return [dict(kind="coq-table", detail=err)], cov
    diffs = [(k, ct.get(k), rt.get(k)) for k in sorted(rt) if ct.get(k) != rt.get(k) and not (k[0].startswith("alias:") and k not in ct)]
    cov.update(dict(programs=len(rt), disagreements_checked=len(diffs), rustc_instances_probed=len(rt),
                    public_types_probed=len(types), evaluations=len(rt),
                    distinct_nontrivial=sum(1 for v in rt.values() if v),
                    rustc_probe_samples=["%s %s %s -> %s" % (k + (v,)) for k, v in list(sorted(rt.items()))[:: max(1, len(rt) // 6)]][:6]))
    for k, c, rv in diffs[:10]:
        if k[0].startswith("alias:"):
            # a documented flavour changed: the program that (no longer) compiles is the failing input
            al = [x for x in ALIASES if x[0].replace(" ", "") == k[0][6:]][0]
            if k[1] == "Same":
                fi = "assert_eq!(std::any::TypeId::of::<%s%s>(), std::any::TypeId::of::<%s%s>()); /* the alias is no longer the documented instantiation */" % (FI, al[0], FI, al[3])
            elif c:
                fi = "fn assert_%s<X: %s>() {} assert_%s::<%s%s>(); /* documented as %s, rejected by rustc */" % (k[1].lower(), k[1], k[1].lower(), FI, al[0], k[1])
            else:
                fi = "fn assert_%s<X: %s>() {} assert_%s::<%s%s>(); /* a local flavour must not be %s, accepted by rustc */" % (k[1].lower(), k[1], k[1].lower(), FI, al[0], k[1])
            problems.append(dict(kind="monitor", what="documented-flavour", type=k[0], trait=k[1], assignment="-", rustc_accepts=bool(rv), failing_input=fi))
        else:
            problems.append(dict(kind="correspondence", detail=dict(key="auto-trait model vs rustc", instance=" ".join(k), coq=c, rustc=rv)))
    diag = diagnostics()
    if diag is None:
        problems.append(dict(kind="coq-diag", detail="Gen/C16Diag.v does not compile"))
    else:
        unsound, incomplete, unpinned, erased = diag
        for ent in erased:
            if len(ent) != 4:
                continue
            owner, impl, kclass, code = ent
            short = owner.split("::")[-1]
            is_send = "send" if "Send" in short else "receive"
            bits = [tuple(int(c) for c in code[i:i + 3]) for i in range(0, len(code), 3)]
            ti = [x for x in types if x["name"] == impl]
            wit = wargs = None
            kinds = ti[0]["kinds"] if ti else (["mutex", "plain", "ringbuf"] if len(bits) == 3 else None)
            if kinds and len(bits) == len(kinds):
                tw = None
                for kind, b in zip(kinds, bits):
                    if kind == "plain":
                        tw = witness("plain", b, None)
                wargs = ", ".join(witness(kind, b, tw) for kind, b in zip(kinds, bits))
                wit = (ti[0]["path"] if ti else impl) + "<" + wargs + ">"
            # rustc's verdicts on the two sides of the link (already in the probe table)
            owner_send = rt.get((owner, "Send", code[:6]))
            impl_sync = rt.get((impl, "Sync", code))
            problems.append(dict(kind="monitor", what="erased-link", type=owner, trait="Send", assignment=code,
                                 klass="erased-buffer:%s->%s" % (owner, impl), in_known_class=(kclass == "K"),
                                 rustc_accepts=(owner_send is not False),
                                 rustc_owner_is_send=owner_send, rustc_implementor_is_sync=impl_sync,
                                 failing_input=((("fn assert_send<X: Send>(_: X) {} let (s, r) = futures_intrusive::channel::shared::generic_channel::<%s>(1); assert_send(%s); "
                                                  % (wargs, "s.send(Mk(PhantomData))" if is_send == "send" else "r.receive()"))
                                                 if "shared" in owner else
                                                 ("fn assert_send<X: Send>(_: X) {} let ch: &'static %s = todo!(); assert_send(ch.%s); "
                                                  % (wit, "send(Mk(PhantomData))" if is_send == "send" else "receive()")))
                                                + "/* accepted: the future is Send although the channel behind its `dyn` reference is not Sync */") if wit else None))
        seen = set()
        for what, lst in (("unsound", unsound), ("incomplete", incomplete), ("future-unpin", unpinned)):
            for name, trait, code in lst:
                if (what, name, trait) in seen:
                    continue
                seen.add((what, name, trait))
                probe_code = code if trait != "Unpin" else code
                confirmed = rt.get((name, trait, code))
                problems.append(dict(kind="monitor", what=what, type=name, trait=trait, assignment=code,
                                     rustc_accepts=confirmed, failing_input=rust_expr(types, name, trait, code)))
    # rustc itself is the authority for "a future / stream is Unpin for some instantiation"
    futs = {t["name"] for t in types if t.get("future")}
    already = {(p.get("type"), p.get("trait")) for p in problems if isinstance(p, dict)}
    for (name, trait, code), v in sorted(rt.items()):
        if trait == "Unpin" and v and name in futs and (name, "Unpin") not in already:
            already.add((name, "Unpin"))
            problems.append(dict(kind="monitor", what="future-unpin", type=name, trait="Unpin", assignment=code,
                                 rustc_accepts=True, failing_input=rust_expr(types, name, "Unpin", code)))
    # guarded producers: every impl of a guarded trait must reject a lock type that is not Sync.
    # The concrete failing input is the instance rustc accepts although the lock is !Sync.
    for (name, trait, code), v in sorted(rt.items()):
        if trait == "impl:Timer" and v and code[1] == "0":
            t = [x for x in types if x["name"] == name][0]
            a = [tuple(int(c) for c in code[i:i + 3]) for i in range(0, len(code), 3)]
            ws = [witness(kind, b, None) for kind, b in zip(t["kinds"], a)]
            ty = t["path"] + "<%s>" % ", ".join(ws)
            problems.append(dict(kind="monitor", what="unguarded-producer", type=name, trait="Timer", assignment=code,
                                 rustc_accepts=True,
                                 failing_input="fn assert_send<X: Send>(_: X) {} let svc: &'static %s = todo!(); "
                                               "assert_send(futures_intrusive::timer::Timer::delay(svc, std::time::Duration::from_secs(1))); "
                                               "/* accepted: a Send TimerFuture that locks a !Sync mutex from another thread */" % ty))
            break
    # erased owners: `dyn Clock` must be Sync; otherwise a !Sync clock can be installed in a
    # Sync timer service.  The program rustc then accepts is the failing input.
    if rt.get(("trait:Clock", "Sync", "-")) is False:
        problems.append(dict(kind="monitor", what="erased-owner-unguarded", type="trait:Clock", trait="Sync", assignment="-",
                             rustc_accepts=True,
                             failing_input="struct CellClock(std::cell::Cell<u64>); impl futures_intrusive::timer::Clock for CellClock { fn now(&self) -> u64 { self.0.get() } } "
                                           "/* accepted: a !Sync clock read by every thread that polls a TimerFuture of a Sync GenericTimerService */"))
    cov["c16_wall_s"] = round(time.time() - t0, 1)
    return problems, cov


if __name__ == "__main__":
    pr, cov = run()
    print(json.dumps(cov, indent=1)[:1500])
    for p in pr[:20]:
        print(json.dumps(p)[:600])
    print(len(pr), "problems")
