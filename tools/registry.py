"""Static tables: which Coq files / theorems / correspondence runs / observables belong to
which property.  Counts in the evidence are measured at run time, nothing here is a result."""

ALLOWED_AXIOMS = []   # expected: every property theorem is closed under the global context

TRUSTED_BASE = [
    "Coq 8.16.1 kernel (coqc; vm_compute used for finite-domain proofs and in-kernel model runs; no native_compute)",
    "no Axiom/Parameter/Admitted in the development (grep on every run); Print Assumptions expected 'Closed under the global context'",
    "hand-written Gallina models of the Rust critical sections (coq/Model), tied to /repo by differential execution only",
    "extraction with ExtrOcamlBasic only (Extract Inductive bool/option/unit/list/prod/sumbool/sumor, inlined andb/orb/fst/snd...; no Extract Constant), OCaml 4.13.1, ocaml/modelrun.ml driver",
    "Rust harness (harness/), cfg-guarded read-only hooks in /repo (MANIFEST.hooks), rustc 1.95",
    "lock_api/parking_lot mutual exclusion, atomics' orderings, Waker contract (non re-entrant), Pin: assumed, not modelled",
]

SCHED_NOTE = ("schedules: proved for every interleaving of whole critical sections (the model's steps); real threads, "
              "memory ordering and the lock itself are assumed (DESIGN 2), so the property is decided partially in that dimension. "
              "Supporting checks in that dimension: per-function audit of lock sections / atomics / orderings, and sampled runs with 2-4 "
              "real threads whose stamped results must be linearizable with respect to the extracted model (tools/threads.py)")

# ---------------------------------------------------------------------------------------------
# correspondence runs: (primitive, configuration) -> how deep
RUNS = [
    dict(name="event-k3", prim="event", cfg="3 0", flavours=["local", "sync"],
         quick=dict(explore=200000, random=(300, 60), scale=(80, 80, 30)), thorough=dict(explore=2000000, random=(5000, 200), scale=(800, 120, 30)),
         random_cfg="12 0"),
    dict(name="event-k3-set", prim="event", cfg="3 1", flavours=["local", "sync"],
         quick=dict(explore=200000), thorough=dict(explore=2000000)),
    dict(name="event-k4", prim="event", cfg="4 0", flavours=["local"],
         quick=dict(explore=30000), thorough=dict(explore=3000000), corpus=False),
    # 300 waiters queued at once (scripted histories, tools/gen_big.py -> corpus/<run>.txt): served one
    # by one, cancelled in bulk, woken by one set(); a count narrowed to 8 bits needs 256 waiters
    dict(name="event-big", prim="event", cfg="300 0", flavours=["local", "sync"], quick=dict(explore=0), thorough=dict(explore=0)),
    dict(name="mutex-big-unfair", prim="mutex", cfg="300 0", flavours=["local", "sync"], quick=dict(explore=0), thorough=dict(explore=0)),
    dict(name="mutex-big-fair", prim="mutex", cfg="300 1", flavours=["local", "sync"], quick=dict(explore=0), thorough=dict(explore=0)),
    # mutex: cfg = slots, fair
    dict(name="mutex-k3-unfair", prim="mutex", cfg="3 0", flavours=["local", "sync"],
         quick=dict(explore=500000, random=(300, 80), scale=(80, 80, 30)), thorough=dict(explore=500000, random=(5000, 300), scale=(800, 120, 30)), random_cfg="10 0"),
    dict(name="mutex-k3-fair", prim="mutex", cfg="3 1", flavours=["local", "sync"],
         quick=dict(explore=500000, random=(300, 80), scale=(80, 80, 30)), thorough=dict(explore=500000, random=(5000, 300), scale=(800, 120, 30)), random_cfg="10 1"),
    dict(name="mutex-k4-unfair", prim="mutex", cfg="4 0", flavours=["local"],
         quick=dict(explore=30000), thorough=dict(explore=3000000), corpus=False),
    dict(name="mutex-k4-fair", prim="mutex", cfg="4 1", flavours=["local"],
         quick=dict(explore=30000), thorough=dict(explore=3000000), corpus=False),
    # semaphore: cfg = slots, fair, initial permits, max request, max releasers, permit budget, fixed(=1: the model the theorems are about)
    dict(name="sem-k2-unfair", prim="semaphore", cfg="2 0 0 3 1 3 1", flavours=["local", "sync", "shared"],
         quick=dict(explore=400000, random=(300, 80), scale=(80, 80, 30)), thorough=dict(explore=400000, random=(5000, 300), scale=(800, 120, 30)), random_cfg="8 0 2 4 4 12 1"),
    dict(name="sem-k2-fair", prim="semaphore", cfg="2 1 0 3 1 3 1", flavours=["local", "sync", "shared"],
         quick=dict(explore=400000, random=(300, 80), scale=(80, 80, 30)), thorough=dict(explore=400000, random=(5000, 300), scale=(800, 120, 30)), random_cfg="8 1 2 4 4 12 1"),
    dict(name="sem-k2-unfair-p1", prim="semaphore", cfg="2 0 1 3 2 3 1", flavours=["local"],
         quick=dict(explore=400000), thorough=dict(explore=400000)),
    dict(name="sem-k2-fair-p1", prim="semaphore", cfg="2 1 1 3 2 3 1", flavours=["local"],
         quick=dict(explore=400000), thorough=dict(explore=400000)),
    # the usize::MAX boundary of the permit counter: initial permits usize::MAX-3, the budget lets
    # releases land exactly on usize::MAX (never above: overflow is excluded by the contract)
    dict(name="sem-max-unfair", prim="semaphore", cfg="2 0 18446744073709551612 3 2 18446744073709551615 1", flavours=["local", "sync", "shared"],
         quick=dict(explore=40000), thorough=dict(explore=150000), corpus=False),
    dict(name="sem-max-fair", prim="semaphore", cfg="2 1 18446744073709551612 3 2 18446744073709551615 1", flavours=["local", "sync", "shared"],
         quick=dict(explore=40000), thorough=dict(explore=150000), corpus=False),
    # three waiters with requests up to 3 on three permits, two releasers: deep hand-over chains
    # (exhaustive only in the thorough tier: 1.6M states)
    dict(name="sem-k3-p3-unfair", prim="semaphore", cfg="3 0 3 3 2 3 1", flavours=["local"],
         quick=dict(explore=40000), thorough=dict(explore=2000000), corpus=False),
    dict(name="sem-k3-p3-fair", prim="semaphore", cfg="3 1 3 3 2 3 1", flavours=["local"],
         quick=dict(explore=40000), thorough=dict(explore=2000000), corpus=False),
    dict(name="sem-k3-unfair", prim="semaphore", cfg="3 0 0 2 1 2 1", flavours=["local", "shared"],
         quick=dict(explore=30000), thorough=dict(explore=3000000), corpus=False),
    dict(name="sem-k3-fair", prim="semaphore", cfg="3 1 0 2 1 2 1", flavours=["local", "shared"],
         quick=dict(explore=30000), thorough=dict(explore=3000000), corpus=False),
]

RUNS += [
    # mpmc: cfg = receive slots, send slots, capacity, shared, max handles per side
    dict(name="mpmc-c0", prim="mpmc", cfg="2 2 0 0 0", flavours=["local", "sync"],
         quick=dict(explore=1000000, random=(300, 80), scale=(80, 80, 30)), thorough=dict(explore=1000000, random=(5000, 300), scale=(800, 120, 30)), random_cfg="6 6 0 0 0"),
    dict(name="mpmc-c1", prim="mpmc", cfg="2 1 1 0 0", flavours=["local", "sync", "fixed", "growing"],
         quick=dict(explore=1000000, random=(300, 80), scale=(80, 80, 30)), thorough=dict(explore=1000000, random=(5000, 300), scale=(800, 120, 30)), random_cfg="6 6 1 0 0"),
    dict(name="mpmc-c2", prim="mpmc", cfg="1 2 2 0 0", flavours=["local", "fixed"],
         quick=dict(explore=1000000, random=(300, 80), scale=(80, 80, 30)), thorough=dict(explore=1000000, random=(5000, 300), scale=(800, 120, 30)), random_cfg="6 6 2 0 0"),
    dict(name="mpmc-c1-22", prim="mpmc", cfg="2 2 1 0 0", flavours=["local"],
         quick=dict(explore=0), thorough=dict(explore=4000000), corpus=False),
    dict(name="mpmc-c1-31", prim="mpmc", cfg="3 1 1 0 0", flavours=["local"],
         quick=dict(explore=80000), thorough=dict(explore=3000000), corpus=False),
    dict(name="mpmc-c2-22", prim="mpmc", cfg="2 2 2 0 0", flavours=["local"],
         quick=dict(explore=30000, random=(400, 40)), thorough=dict(explore=6000000), corpus=False),
    dict(name="mpmc-shared-c0", prim="mpmc", cfg="1 1 0 1 2", flavours=["shared", "shared-growing"],
         quick=dict(explore=1000000, random=(300, 80), scale=(80, 80, 30)), thorough=dict(explore=1000000, random=(5000, 300), scale=(800, 120, 30)), random_cfg="4 4 0 1 3"),
    dict(name="mpmc-shared-c1", prim="mpmc", cfg="1 1 1 1 2", flavours=["shared", "shared-growing"],
         quick=dict(explore=1000000, random=(300, 80), scale=(80, 80, 30)), thorough=dict(explore=1000000, random=(5000, 300), scale=(800, 120, 30)), random_cfg="4 4 2 1 3"),
    dict(name="mpmc-shared-c1-h3", prim="mpmc", cfg="2 1 1 1 3", flavours=["shared"],
         quick=dict(explore=40000, random=(300, 40)), thorough=dict(explore=4000000), corpus=False),
    # oneshot: cfg = slots, broadcast, counted receivers (1 = what C11 requires), shared, max receiver handles
    dict(name="oneshot-local", prim="oneshot", cfg="3 0 1 0 0", flavours=["local", "sync"],
         quick=dict(explore=1000000, random=(200, 40), scale=(80, 80, 30)), thorough=dict(explore=1000000, random=(3000, 100), scale=(800, 120, 30)), random_cfg="8 0 1 0 0"),
    dict(name="bcast-local", prim="oneshot", cfg="3 1 1 0 0", flavours=["local", "sync"],
         quick=dict(explore=1000000, random=(200, 40), scale=(80, 80, 30)), thorough=dict(explore=1000000, random=(3000, 100), scale=(800, 120, 30)), random_cfg="8 1 1 0 0"),
    dict(name="oneshot-shared", prim="oneshot", cfg="2 0 1 1 1", flavours=["shared"],
         quick=dict(explore=1000000, random=(200, 40), scale=(80, 80, 30)), thorough=dict(explore=1000000, random=(3000, 100), scale=(800, 120, 30)), random_cfg="8 0 1 1 1"),
    dict(name="bcast-shared", prim="oneshot", cfg="2 1 1 1 3", flavours=["shared"],
         quick=dict(explore=1000000, random=(200, 40), scale=(80, 80, 30)), thorough=dict(explore=1000000, random=(3000, 100), scale=(800, 120, 30)), random_cfg="8 1 1 1 3"),
]

RUNS += [
    # state broadcast: cfg = slots, shared, max handles, max sends
    dict(name="state-local", prim="state", cfg="2 0 0 2", flavours=["local", "sync"],
         quick=dict(explore=1000000, random=(200, 60), scale=(80, 80, 30)), thorough=dict(explore=1000000, random=(3000, 150), scale=(800, 120, 30)), random_cfg="6 0 0 8"),
    dict(name="state-shared", prim="state", cfg="2 1 2 2", flavours=["shared"],
         quick=dict(explore=1000000, random=(200, 60), scale=(80, 80, 30)), thorough=dict(explore=1000000, random=(3000, 150), scale=(800, 120, 30)), random_cfg="6 1 3 8"),
    dict(name="state-k3", prim="state", cfg="3 0 0 3", flavours=["local"],
         quick=dict(explore=30000), thorough=dict(explore=4000000), corpus=False),
    # timer: cfg = slots, distinct deadlines, max time
    dict(name="timer-k3", prim="timer", cfg="3 2 2", flavours=["local", "sync"],
         quick=dict(explore=1000000, random=(200, 80), scale=(80, 80, 60)), thorough=dict(explore=1000000, random=(3000, 300), scale=(800, 120, 60)), random_cfg="12 6 8"),
    dict(name="timer-k4", prim="timer", cfg="4 2 2", flavours=["local"],
         quick=dict(explore=2000000), thorough=dict(explore=2000000)),
    dict(name="timer-k4-d3", prim="timer", cfg="4 3 3", flavours=["local", "sync"],
         quick=dict(explore=0), thorough=dict(explore=8000000), corpus=False),
]
RUNS += [
    # delay(d) boundary durations (tmax = 0 switches the alphabet to Delay ops), clock fixed at 0 and preset by the corpus
    dict(name="timer-delay", prim="timer", cfg="2 1 0", flavours=["local", "sync"],
         quick=dict(explore=300000), thorough=dict(explore=300000)),
]
# shared-waker exploration (explore-sw): besides its own two wakers every future may be polled with
# one waker common to all futures - one task polling several futures (join!, select!) - so that
# waker bookkeeping which depends on `will_wake` between DIFFERENT futures is exercised.  All exhaustive.
SW = dict(explore_cmd="explore-sw", corpus=False)
RUNS += [
    dict(name="event-sw", prim="event", cfg="3 0", flavours=["local", "sync"], quick=dict(explore=1000000), thorough=dict(explore=1000000), **SW),
    dict(name="mutex-sw-unfair", prim="mutex", cfg="3 0", flavours=["local"], quick=dict(explore=1000000), thorough=dict(explore=1000000), **SW),
    dict(name="mutex-sw-fair", prim="mutex", cfg="3 1", flavours=["local"], quick=dict(explore=1000000), thorough=dict(explore=1000000), **SW),
    dict(name="sem-sw-unfair", prim="semaphore", cfg="2 0 0 3 1 3 1", flavours=["local"], quick=dict(explore=1000000), thorough=dict(explore=1000000), **SW),
    dict(name="sem-sw-fair", prim="semaphore", cfg="2 1 0 3 1 3 1", flavours=["local"], quick=dict(explore=1000000), thorough=dict(explore=1000000), **SW),
    dict(name="mpmc-sw-c0", prim="mpmc", cfg="2 2 0 0 0", flavours=["local"], quick=dict(explore=1000000), thorough=dict(explore=1000000), **SW),
    dict(name="mpmc-sw-c1", prim="mpmc", cfg="2 1 1 0 0", flavours=["local"], quick=dict(explore=1000000), thorough=dict(explore=1000000), **SW),
    dict(name="mpmc-sw-shared", prim="mpmc", cfg="1 1 1 1 2", flavours=["shared"], quick=dict(explore=1000000), thorough=dict(explore=1000000), **SW),
    dict(name="oneshot-sw", prim="oneshot", cfg="3 0 1 0 0", flavours=["local"], quick=dict(explore=1000000), thorough=dict(explore=1000000), **SW),
    dict(name="bcast-sw", prim="oneshot", cfg="3 1 1 0 0", flavours=["local", "sync"], quick=dict(explore=1000000), thorough=dict(explore=1000000), **SW),
    dict(name="bcast-sw-shared", prim="oneshot", cfg="2 1 1 1 3", flavours=["shared"], quick=dict(explore=1000000), thorough=dict(explore=1000000), **SW),
    dict(name="state-sw", prim="state", cfg="2 0 0 2", flavours=["local"], quick=dict(explore=1000000), thorough=dict(explore=1000000), **SW),
    dict(name="state-sw-shared", prim="state", cfg="2 1 2 2", flavours=["shared"], quick=dict(explore=1000000), thorough=dict(explore=1000000), **SW),
    dict(name="timer-sw", prim="timer", cfg="3 2 2", flavours=["local"], quick=dict(explore=1000000), thorough=dict(explore=1000000), **SW),
]
STATE_RUNS = ["state-local", "state-shared", "state-k3", "state-sw", "state-sw-shared"]
TIMER_RUNS = ["timer-k3", "timer-k4", "timer-k4-d3", "timer-delay", "timer-sw"]
# ring buffers: cfg = kind (0 array, 1 fixed heap, 2 growing heap), capacity, debug assertions, malformed calls too
RB_RUNS = []
for kind in (0, 1, 2):
    for cap in (0, 1, 2, 3, 4):
        for mal in (0, 1):
            name = "rb-%d-%d-%d" % (kind, cap, mal)
            RUNS.append(dict(name=name, prim="ringbuf", cfg="%d %d 1 %d" % (kind, cap, mal), flavours=["local"] + (["zst"] if mal == 0 else []),
                             quick=dict(explore=100000), thorough=dict(explore=100000), corpus=False))
            RB_RUNS.append(name)
RUNS += [
    dict(name="dlist-5", prim="dlist", cfg="5", flavours=["local"], quick=dict(explore=1000000, random=(200, 60)),
         thorough=dict(explore=1000000, random=(3000, 200)), random_cfg="9"),
    dict(name="dlist-6", prim="dlist", cfg="6", flavours=["local"], quick=dict(explore=0), thorough=dict(explore=3000000), corpus=False),
    dict(name="pheap-6", prim="pheap", cfg="0 1 2 0 1 2", flavours=["local"], quick=dict(explore=1000000, random=(200, 60)),
         thorough=dict(explore=1000000, random=(3000, 200)), random_cfg="3 1 2 0 1 2 2 1 0 3"),
    dict(name="pheap-eq", prim="pheap", cfg="1 1 1 1 1", flavours=["local"], quick=dict(explore=1000000), thorough=dict(explore=1000000)),
    dict(name="pheap-7", prim="pheap", cfg="0 1 2 0 1 2 1", flavours=["local"], quick=dict(explore=0), thorough=dict(explore=3000000), corpus=False),
]
L0_RUNS = ["dlist-5", "dlist-6", "pheap-6", "pheap-eq", "pheap-7"]

RUNS += [
    # streams: cfg has a 6th field = number of streams (stream k uses receive slot kr-1-k)
    dict(name="mpmc-stream-c1", prim="mpmc", cfg="2 1 1 0 0 1", flavours=["local", "sync"], quick=dict(explore=1000000), thorough=dict(explore=1000000)),
    dict(name="mpmc-stream-c0", prim="mpmc", cfg="2 1 0 0 0 1", flavours=["local"], quick=dict(explore=1000000), thorough=dict(explore=1000000)),
    dict(name="mpmc-sstream-c1", prim="mpmc", cfg="1 1 1 1 2 1", flavours=["shared"], quick=dict(explore=1000000), thorough=dict(explore=1000000)),
    dict(name="mpmc-sstream-c0", prim="mpmc", cfg="2 1 0 1 2 1", flavours=["shared"], quick=dict(explore=1000000), thorough=dict(explore=1000000)),
]
MPMC_RUNS = ["mpmc-c0", "mpmc-c1", "mpmc-c2", "mpmc-c1-22", "mpmc-c1-31", "mpmc-c2-22", "mpmc-shared-c0", "mpmc-shared-c1", "mpmc-shared-c1-h3", "mpmc-sw-c0", "mpmc-sw-c1", "mpmc-sw-shared"]
ONESHOT_RUNS = ["oneshot-local", "bcast-local", "oneshot-shared", "bcast-shared", "oneshot-sw", "bcast-sw", "bcast-sw-shared"]
MUTEX_RUNS = ["mutex-k3-unfair", "mutex-k3-fair", "mutex-k4-unfair", "mutex-k4-fair", "mutex-sw-unfair", "mutex-sw-fair", "mutex-big-unfair", "mutex-big-fair"]
SEM_RUNS = ["sem-k2-unfair", "sem-k2-fair", "sem-k2-unfair-p1", "sem-k2-fair-p1", "sem-k3-unfair", "sem-k3-fair", "sem-max-unfair", "sem-max-fair", "sem-k3-p3-unfair", "sem-k3-p3-fair", "sem-sw-unfair", "sem-sw-fair"]

# ---------------------------------------------------------------------------------------------
ALL_RUNS_FOR_PROTOCOL = None

PROPS = {
    "C01": dict(
        level="proof", extra=["atomic_audit", "threads"], coq_files=["Properties/C01.v", "Properties/C20.v"],
        theorems={"Properties/C01.v": ["C01_event_queue", "C01_event_no_panic", "C01_mutex_queue", "C01_mutex_no_panic",
                                       "C01_semaphore_queue", "C01_semaphore_no_panic", "C01_mpmc_queues", "C01_mpmc_no_panic",
                                       "C01_oneshot_queue", "C01_oneshot_no_panic", "C01_state_queue", "C01_state_no_panic",
                                       "C01_timer_heap", "C01_timer_no_panic"],
                  "Properties/C20.v": ["C20_list_refines_deque", "C20_heap_refines_tree"]},
        prims=["event", "mutex", "semaphore", "mpmc", "oneshot", "state", "timer"], keys=["qs", "r"], direct_keys=["qs", "r"], assumptions=[SCHED_NOTE],
        level_text="For each of the seven primitive models, theorem over every reachable state (any history, any number of futures, fair/unfair, every capacity, borrowed/shared handles): the wait queue (timer: the heap) holds exactly the alive, non-terminated futures in the linked state, each once; no contract-respecting call returns a panic or leaves the intrusive-container protocol (add of a linked node / removal of a non-member). Combined with C20 (pointer-level list and heap are memory-safe and exact under exactly that protocol) this is the 'no access to a dropped future' claim. Correspondence: after EVERY operation of every explored history the hook snapshot of the real queue (node addresses mapped to live futures; an address of a dropped future prints as DANGLING) must equal the model's queue, and no call may panic or crash.",
        level_note="Rust aliasing-model UB is not expressible. The harness keeps dropped futures' memory mapped so that a dangling entry is observed rather than crashing. " + SCHED_NOTE,
    ),
    "C17": dict(
        level="proof", coq_files=["Properties/C17.v", "Properties/C17s.v"],
        theorems={"Properties/C17.v": ["C17_event", "C17_event_repoll", "C17_mutex", "C17_mutex_repoll", "C17_semaphore", "C17_semaphore_repoll",
                                       "C17_mpmc_recv", "C17_mpmc_send", "C17_mpmc_repoll", "C17_oneshot", "C17_oneshot_repoll",
                                       "C17_state", "C17_state_repoll", "C17_timer", "C17_timer_repoll"],
                  "Properties/C17s.v": ["C17s_terminated_stays", "C17s_item_is_receive"]},
        prims=["event", "mutex", "semaphore", "mpmc", "oneshot", "state", "timer"], runs=["mpmc-stream-c1", "mpmc-stream-c0", "mpmc-sstream-c1", "mpmc-sstream-c0"],
        keys=["t", "r"], direct_keys=["t"],
        level_text="Theorems for all seven models: a future is created non-terminated; a legal step changes the is_terminated flag of a surviving future only by setting it, exactly when that future's poll returns a Ready-type result (or cancel() on a send future); polls are legal only while unset, hence Ready at most once; a poll after completion panics and changes nothing. Streams (ChannelStream / SharedStream) are modelled as composition of receive-future steps: an item is exactly the result of the receive poll, a terminated stream returns None forever without touching the channel. Correspondence: is_terminated() of every live future and stream after every operation of every explored history, malformed re-polls expect a panic.",
        level_note="Kernel-checked on the models; the stream composition itself (poll_next = create-if-absent, poll, drop-if-ready) is tied to the code by exhaustive correspondence runs with one stream next to explicit futures.",
    ),
    "C18": dict(
        level="other", coq_files=["Properties/C18.v"],
        theorems={"Properties/C18.v": ["C18_alloc_zero", "C18_store_domain_preserved"]},
        prims=["event", "mutex", "semaphore", "mpmc", "oneshot", "state", "timer"], keys=["a"],
        # + the array / fixed-heap ring buffers themselves, all capacities 0..4 (push / pop must not allocate)
        runs=[n for n in RB_RUNS if not n.startswith("rb-2-") and n.endswith("-0")],
        exclude_flavours=["growing", "shared-growing"], direct_keys=["a"],
        explanation="Thin theorem (every model step reports zero allocations; the pointer-level containers never change the domain of the cell store) + the deciding observable: a counting #[global_allocator] in the harness, armed only inside library calls (id-wakers, tagged payloads and the harness bookkeeping allocate nothing while armed), whose per-step allocation+free count is compared with the model's zero on every step of every history explored for the other properties, for local, parking_lot and shared flavours. GrowingHeapBuf runs are excluded from the 'a' comparison (documented exception); creation/teardown of primitives and panicking calls are outside the claim.",
        level_text="Allocation observable in the model/implementation correspondence (all seven primitives, all non-growing flavours, plus the array / fixed-heap ring buffers themselves for capacities 0..4), backed by a thin Coq theorem; see explanation.",
        level_note="A proof cannot see an allocation the model does not mention; detection rests on the allocator observable.",
        technique="Coq theorem (thin) + counting global allocator compared on every step of the correspondence runs",
    ),
    "C02": dict(
        level="proof", extra=["atomic_audit", "threads"], coq_files=["Properties/C02.v"],
        theorems={"Properties/C02.v": ["C02_guards_le_1", "C02_grant_only_when_free", "C02_guard_count", "C02_is_locked_exact", "C02_monitor"]},
        runs=MUTEX_RUNS, keys=["r", "p"], assumptions=[SCHED_NOTE], monitor=dict(id=2, runs=["mutex-k3-unfair", "mutex-k3-fair"]),
        level_text="Theorems over every reachable state of the mutex model (any number of lock futures, both fairness modes): guards <= 1, locked iff one guard, a poll/try_lock completes only from a guard-free state and creates exactly one, is_locked() exact. Model tied to the crate by exhaustive model-guided exploration (k=3 fixpoint, local and parking_lot flavours) comparing results, is_locked() and the number of guard objects the harness holds. The boolean monitors evaluated on the crate's traces have their own theorems (C02_monitor; likewise C03_monitor, C04_monitor).",
        level_note="Exclusive access to T follows from guards<=1 only under the atomicity assumptions (lock_api mutual exclusion; all state inside the lock). " + SCHED_NOTE,
    ),
    "C03": dict(
        level="proof", extra=["atomic_audit", "threads"], coq_files=["Properties/C03.v"],
        theorems={"Properties/C03.v": ["C03_woken_when_free", "C03_pending_is_arrivals", "C03_progress", "C03_monitor"]},
        runs=MUTEX_RUNS, keys=["r", "w"], assumptions=[SCHED_NOTE], monitor=dict(id=3, runs=["mutex-k3-unfair", "mutex-k3-fair"]),
        level_text="Theorem over all histories: whenever the mutex is free and lock futures are pending, a pending future (fair: the oldest in trace-recomputed arrival order) has been woken since its last poll through the waker of that poll (tracker defined on the observable trace); a notified future polled while free succeeds. Correspondence compares results and ordered wake lists on every transition of the k=3 state space with waker swaps.",
        level_note="Liveness ('eventually completes') is given as the safety invariant + one-step progress lemma, not as a temporal theorem. " + SCHED_NOTE,
    ),
    "C04": dict(
        level="proof", coq_files=["Properties/C04.v"],
        theorems={"Properties/C04.v": ["C04_fifo", "C04_queue_is_arrivals", "C04_drop_is_filter", "C04_monitor"]},
        runs=["mutex-k3-fair", "mutex-k4-fair"], keys=["r"], monitor=dict(id=4, runs=["mutex-k3-fair"]),
        level_text="Theorem over all fair-mode histories: a lock future completes only if it is the oldest pending one in the arrival order recomputed from the trace, try_lock only if nobody is pending; the wait queue equals that arrival order; drop = filter. Correspondence compares every result on the fair state space.",
        level_note="Kernel-checked on the Gallina model; tie to the code by differential execution.",
    ),
    "C05": dict(
        level="proof", extra=["atomic_audit", "threads"], coq_files=["Properties/C05.v"],
        theorems={"Properties/C05.v": ["C05_ledger", "C05_grant_exact", "C05_releaser_once", "C05_disarm"]},
        runs=SEM_RUNS, keys=["r", "p"], assumptions=[SCHED_NOTE, "permits + release amounts stay below usize::MAX (source has a TODO: overflow check)"],
        monitor=dict(id=5, runs=["sem-k2-unfair", "sem-k2-fair", "sem-max-unfair", "sem-max-fair"]),
        level_text="Theorem over all histories (fair/unfair, any requests, with or without the wake-up repairs): the ledger monitor over the observable trace holds - permits() = initial + released - taken + returned after every call, grants only when enough permits and of exactly n, releaser returns its amount once, zero after disarm. Correspondence: results (incl. observed permit deltas) and permits() on every transition, borrowed, parking_lot and shared flavours, including runs at the usize::MAX boundary of the counter (initial permits usize::MAX-3, requests up to usize::MAX).",
        level_note="Overflow of the permit counter is excluded by the contract predicate. " + SCHED_NOTE,
    ),
    "C06": dict(
        level="proof", extra=["atomic_audit", "threads"], coq_files=["Properties/C06.v"],
        theorems={"Properties/C06.v": ["C06_head_not_stranded", "C06_progress", "C06_refuted_pinned"]},
        runs=SEM_RUNS, keys=["r", "w", "p"], assumptions=[SCHED_NOTE, "wakers private to each future (so that wake events are attributable from the trace)"],
        monitor=dict(id=6, runs=["sem-k2-unfair", "sem-k2-fair", "sem-max-unfair", "sem-max-fair", "sem-k3-p3-unfair"]),
        level_text="Theorem over all histories of the repaired code, both fairness modes: at every quiescent point, if requests are pending and none holds an unconsumed wake-up then the longest-waiting one (ordering rule of the property, recomputed from the trace) does not fit into permits(); notified request that fits completes when polled; plus a machine-checked refutation for the pre-repair model (finding D1a). Correspondence on results, ordered wakes and permits(); the extracted monitor is also evaluated on the crate's own traces to exhibit a failing history; runs at the usize::MAX boundary included.",
        level_note="'Eventually completes' is the invariant + one-step progress, not a temporal theorem. " + SCHED_NOTE,
    ),
    "C07": dict(
        level="proof", coq_files=["Properties/C07.v"],
        theorems={"Properties/C07.v": ["C07_fifo", "C07_queue_is_arrivals", "C07_drop_is_filter"]},
        runs=["sem-k2-fair", "sem-k2-fair-p1", "sem-k3-fair"], keys=["r"],
        monitor=dict(id=7, runs=["sem-k2-fair"]),
        level_text="Theorem over all fair-mode histories: the fair-order monitor holds (a request n>0 completes only as the oldest pending one or with nobody pending; n=0 completes at once), the queue equals the trace-recomputed arrival order, cancel = filter. Correspondence on every result of the fair state spaces.",
        level_note="Kernel-checked on the Gallina model; tie to the code by differential execution.",
    ),
    "C08": dict(
        level="proof", extra=["atomic_audit", "threads"], coq_files=["Properties/C08.v"],
        theorems={"Properties/C08.v": ["C08_conservation", "C08_in_flight", "C08_drops_only_where_allowed", "C08_drops_placed"]},
        runs=MPMC_RUNS, keys=["r", "v", "p"], monitor=dict(id=8, runs=["mpmc-c0", "mpmc-c1", "mpmc-c2", "mpmc-shared-c1"]),
        assumptions=[SCHED_NOTE, "values uniquely tagged"],
        level_text="Theorem over all histories (any number of send/receive futures, any capacity incl. 0, close, cancel, try-ops, shared handle drops): the conservation monitor over the observable trace holds - every observed movement (delivered / handed back / destroyed) concerns a value still in flight and removes it, nothing is left after teardown; the in-flight set of the trace equals buffer + values inside live send futures; values are destroyed only with their send future, by the last receiver's clear(), or at teardown (state-level theorem and trace monitor drops_placed_ok with theorem C08_drops_placed). Correspondence on results, per-step value movements (drop-counting tagged payloads, double drops detected) and closed/len probes, for ArrayBuf, FixedHeapBuf, GrowingHeapBuf, borrowed and shared.",
        level_note="Tie to the code by differential execution on exhaustive k=2x2 (caps 0..2) spaces + random histories. " + SCHED_NOTE,
    ),
    "C09": dict(
        level="proof", extra=["atomic_audit", "threads"], coq_files=["Properties/C09.v"],
        theorems={"Properties/C09.v": ["C09_fifo", "C09_refines_queue", "C09_capacity"]},
        runs=MPMC_RUNS, keys=["r", "v", "p"], monitor=dict(id=9, runs=["mpmc-c0", "mpmc-c1", "mpmc-c2"]),
        assumptions=[SCHED_NOTE, "values uniquely tagged"],
        level_text="Theorem over all histories: the reference-FIFO monitor holds on the trace (values received in the order their sends took effect, cancelled senders anywhere; accepted-but-unreceived <= capacity; capacity 0: a send completes only after a receiver took the value); refinement: buffer ++ parked sender values = the reference FIFO while open; capacity invariant on the state.",
        level_note="Per-producer order under real thread schedules follows only with the atomicity assumptions. " + SCHED_NOTE,
    ),
    "C10": dict(
        level="proof", extra=["atomic_audit", "threads"], coq_files=["Properties/C10.v"],
        theorems={"Properties/C10.v": ["C10_recv_woken_trace", "C10_recv_woken", "C10_sender_woken", "C10_after_close_all_woken", "C10_progress", "C10_sender_progress"]},
        runs=MPMC_RUNS, keys=["r", "w", "p"], monitor=dict(id=10, runs=["mpmc-c0", "mpmc-c1", "mpmc-shared-c0", "mpmc-c2-22", "mpmc-shared-c1-h3", "mpmc-c1-31"]),
        assumptions=[SCHED_NOTE],
        level_text="Theorem over all histories: after every call, value available and receivers pending => some pending receiver woken since its last poll through that poll's waker (monitor on the trace + state-level version); accepted sender woken; all pending futures woken after close; progress lemmas (unqueued receiver polled while a value is available gets the oldest value; completed sender polls Ok). Correspondence on results and ordered wake lists.",
        level_note="'Never deadlock' is the safety invariant + one-step progress, not a temporal theorem. " + SCHED_NOTE,
    ),
    "C11": dict(
        level="proof", extra=["atomic_audit", "threads"], coq_files=["Properties/C11.v", "Properties/C11b.v", "Properties/C13.v"],
        theorems={"Properties/C11.v": ["C11_close_status", "C11_closed_monotone", "C11_send_after_close", "C11_close_wakes_all", "C11_close_wakes_trace", "C11_handles_trace", "C11_drain_then_none", "C11_implicit_close", "C11_last_receiver_clears"],
                  "Properties/C11b.v": ["C11b_close_status", "C11b_closed_monotone", "C11b_implicit_close", "C11b_refuted_pinned", "C11b_handles_trace"],
                  "Properties/C13.v": ["C11c_close_status", "C11c_closed_monotone", "C11c_implicit_close", "C11c_handles_trace"]},
        runs=MPMC_RUNS + ONESHOT_RUNS + STATE_RUNS, keys=["r", "w", "p", "v"], assumptions=[SCHED_NOTE],
        monitor=dict(id=11, runs=["bcast-shared", "oneshot-shared", "state-shared", "mpmc-shared-c1", "mpmc-shared-c0", "mpmc-c0", "mpmc-c1"]),
        level_text="Theorems for mpmc, oneshot, oneshot-broadcast and state-broadcast models: close is permanent/idempotent (NewlyClosed once), sends after close fail returning the caller's value, every queued future is woken and unlinked, receivers drain the buffer in order then None/Closed; implicit close: for every interleaving of the atomic sections of clone/drop of any number of handles, without explicit close the channel is closed iff a side has no handle left (never while both sides have one); last mpmc receiver clears the buffer; trace monitors with theorems for the handle lifecycle (C11_handles_trace) and for 'a closing call leaves nobody pending and unwoken' (C11_close_wakes_trace); plus a machine-checked refutation for the pre-repair broadcast receiver (finding D3). Correspondence on close status, results, wakes, value movements over all clone/drop orders of up to 3 handles.",
        level_note="Handle-count atomics' memory orderings are assumed; interleavings are of whole atomic sections. " + SCHED_NOTE,
    ),
    "C12": dict(
        level="proof", extra=["atomic_audit", "threads"], coq_files=["Properties/C12.v"],
        theorems={"Properties/C12.v": ["C12_protocol", "C12_single_send", "C12_wakes_all", "C12_queue_exact"]},
        runs=ONESHOT_RUNS, keys=["r", "w", "p", "v"], monitor=dict(id=12, runs=ONESHOT_RUNS), assumptions=[SCHED_NOTE],
        level_text="Theorem over all histories, single-consumer and broadcast, borrowed and shared: the oneshot monitor holds on the trace (first send on an open channel succeeds, all others fail returning their value; single consumer: exactly one receive yields the value, others None; broadcast: every completion after the send yields it, None only if closed without value; receivers pending at send/close woken through latest wakers).",
        level_note=SCHED_NOTE,
    ),
    "C13": dict(
        level="proof", extra=["atomic_audit", "threads"], coq_files=["Properties/C13.v"],
        theorems={"Properties/C13.v": ["C13_protocol", "C13_ids_move_only_with_send", "C13_send", "C13_ids_bounded", "C13_wakes_all", "C13_queue_exact", "C13_after_close"]},
        runs=STATE_RUNS, keys=["r", "w", "p", "v"], monitor=dict(id=13, runs=["state-local", "state-shared"]), assumptions=[SCHED_NOTE],
        level_text="Theorem over all histories: the state-broadcast monitor holds on the trace (ids strictly increase, sends rejected only when closed or at u64::MAX and return their value; receive/try_receive complete only with the latest state and its id and only if newer than requested; None only after close for up-to-date receivers; waiting receivers woken by the next send or close; the published id moves only with a successful send - monitor ids_stable, theorem C13_ids_move_only_with_send). The u64::MAX arm is reached in the correspondence through a cfg-guarded hook presetting the id.",
        level_note=SCHED_NOTE,
    ),
    "C15": dict(
        level="proof", extra=["atomic_audit", "threads"], coq_files=["Properties/C15.v"],
        theorems={"Properties/C15.v": ["C15_protocol", "C15_heap_exact", "C15_pheap_insert", "C15_pheap_remove", "C15_pheap_min", "C15_delay_saturating"]},
        runs=TIMER_RUNS, keys=["r", "w", "p"], monitor=dict(id=15, runs=["timer-k3", "timer-delay"]), assumptions=[SCHED_NOTE, "Clock::now() is monotone"],
        level_text="Theorem over all histories (any number of timers, duplicate deadlines): the timer monitor holds on the trace (never early; check_expirations wakes all and only the due registered futures through latest wakers in non-decreasing deadline order; next_expiration = min registered deadline; delay saturates); tree-level pairing heap theorems (permutation of elements, heap order preserved, root = minimum); the heap holds exactly the registered futures. The model reproduces the crate's heap SHAPE: correspondence compares the pre-order heap snapshot (hook), results, probes and ordered wakes on every transition of k=4 spaces.",
        level_note="Wake order among equal deadlines is compared exactly (it is determined by the pairing heap's tie-breaking, which the model reproduces). " + SCHED_NOTE,
    ),
    "C19": dict(
        level="proof", coq_files=["Properties/C19.v"],
        theorems={"Properties/C19.v": ["C19_refines_fifo", "C19_accessors", "C19_drop_exact", "C19_no_ub", "C19_array_indices"]},
        runs=RB_RUNS, keys=["r", "v", "p"], monitor=dict(id=19, runs=[r for r in RB_RUNS if r.endswith("-0")]),
        level_text="Theorems for ArrayBuf (indices + MaybeUninit slots), FixedHeapBuf and GrowingHeapBuf models, every capacity incl. 0: refinement to a FIFO list, accessors exact, drop returns exactly the stored elements once, no assertion failure / uninitialised read / overwrite under the can_push/is_empty discipline, index invariant with wrap-around. Correspondence: exhaustive push/pop/drop sequences for capacities 0..4 with drop-counting elements - sized and ZERO-SIZED element types - plus a malformed stream whose expected observable is a panic.",
        level_note="VecDeque is trusted (modelled as a list). Miri is not used (different technique family).",
    ),
    "C20": dict(
        level="proof", coq_files=["Properties/C20.v"],
        theorems={"Properties/C20.v": ["C20_list_empty", "C20_list_refines_deque", "C20_list_reachable", "C20_heap_empty", "C20_heap_refines_tree", "C20_heap_reachable"]},
        runs=L0_RUNS, keys=["r", "q"], direct_keys=["q", "r"],
        level_text="Pointer-level models of the intrusive list and pairing heap (one Gallina assignment per Rust statement, debug_asserts as outcomes) proved to refine a deque / the tree-level pairing heap: every operation under its documented precondition returns the specified value, keeps all links mutually consistent (representation predicate), leaves removed nodes and non-members with cleared links and trips no assertion; remove(non-member) returns false unchanged. Correspondence compares EVERY link of EVERY node (hook re-export of the private modules) after every operation on all sequences over 5 list nodes / 6 heap nodes with keys from a 3-value set.",
        level_note="Rust aliasing-model UB (stacked borrows) is not expressible in the model.",
    ),
    "C16": dict(
        level="proof", coq_files=["Properties/C16.v"],
        pre_coq="python3 tools/rs2coq_types.py /repo/src coq/Gen/TypesGen.v && make -C coq Gen/TypesGen.vo >/dev/null 2>&1; true",
        theorems={"Properties/C16.v": ["C16_futures_not_unpin", "C16_sound", "C16_table_covers_impls", "C16_complete", "C16_producers_guarded", "C16_erased_guarded", "C16_erased_links_sound"]},
        runs=[], keys=[], extra=["c16"],
        trusted_extra=["tools/rs2coq_types.py (translator: struct/enum fields, unsafe impl bounds -> coq/Gen/TypesGen.v, regenerated on every run)",
                       "coq/Model/AutoTraits.v leaf rules for core/alloc/lock_api types, validated on every run against rustc on ~1500 instantiations with witness types (tools/c16.py probe crate)",
                       "coq/Model/AutoTraitsSpec.v `required` / `promised` tables: they ARE the definition of 'sound' and 'promised'"],
        level_text="Translator route: the struct / unsafe-impl facts are regenerated from /repo/src on every run; theorems (complete case analysis over all Send/Sync/Unpin bit assignments of the type parameters, closed by vm_compute): every future/stream is !Unpin for every instantiation; whenever a public type is Send/Sync the bounds required by the hand-written soundness table hold; every explicit unsafe impl is covered by the table; promised instances hold; every `impl Timer` demands MutexType: Sync (TimerFuture is unconditionally Send); `trait Clock: Sync` (the service shares &dyn Clock between threads); futures that erase their channel behind dyn ...Access<T> are Send only if the channel behind the reference is Sync - proved for all links outside the recorded open finding D5 (mpmc futures cannot name the buffer type), whose instances are reported as KNOWN-FINDING. The documented alias flavours (Local* = never Send/Sync, others = parking_lot instantiation, Send+Sync) are pinned with rustc. The auto-trait rules + translator are validated against rustc itself (probe crate, autoref specialisation) on every run; a falsifying assignment is instantiated with witness types and confirmed with rustc as the failing input.",
        level_note="The auto-trait model is a simplification of rustc's solver (no lifetimes, no coinduction); soundness is relative to the requirement table.",
        assumptions=["Pin guarantees that a !Unpin future is not moved after its first poll (language guarantee)"],
        technique="translator (Rust source -> Coq data) + Coq proof by exhaustive case analysis + rustc probe validation",
    ),
    "C14": dict(
        level="proof", extra=["atomic_audit", "threads"],
        coq_files=["Properties/C14.v"],
        theorems={"Properties/C14.v": ["C14_iff_latched", "C14_set_wakes_all", "C14_reset_inert", "C14_is_set", "C14_is_set_probe"]},
        prims=["event"], keys=["r", "ws", "p"], monitor=dict(id=14, runs=["event-k3", "event-k3-set"]),
        assumptions=[SCHED_NOTE],
        level_text="Theorems over all histories (any number of futures, any waker choice): a poll completes iff the event is set now or was set since the future's first poll (tracker defined on the operations alone); set() wakes exactly the pending waiters oldest-first through their latest wakers; reset() is inert; is_set() tracks the last set/reset. The model is tied to the crate by exhaustive model-guided exploration (k=3 to a fixpoint, both lock flavours) and random histories comparing results, wake lists and is_set().",
        level_note="Kernel-checked for the Gallina model of EventState; the model/code tie is differential execution (bounded by explored histories); thread schedules covered only as interleavings of critical sections.",
    ),
}
