"""Static tables: which Coq files / theorems / correspondence runs / observables belong to
which property.  Counts in the evidence are measured at run time, nothing here is a result."""

ALLOWED_AXIOMS = []   # expected: every property theorem is closed under the global context

TRUSTED_BASE = [
    "Coq 8.16.1 kernel (coqc; vm_compute used for finite-domain proofs and in-kernel model runs; no native_compute)",
    "no Axiom/Parameter/Admitted in the development (grep on every run); Print Assumptions expected 'Closed under the global context'",
    "hand-written Gallina models of the Rust critical sections (coq/Model), tied to /repo by differential execution only",
    "extraction with ExtrOcamlBasic only (Extract Inductive bool/option/unit/list/prod/sumbool/sumor, inlined andb/orb/fst/snd...; no Extract Constant), OCaml 4.13.1, ocaml/modelrun.ml driver",
    "Rust harness (harness/), cfg-guarded read-only hooks in /repo (MANIFEST.hooks), rustc 1.95",
    "lock_api/parking_lot mutual exclusion, atomics' orderings, Waker contract (non re-entrant), Pin: assumed, not modelled",
]

SCHED_NOTE = ("schedules: proved for every interleaving of whole critical sections (the model's steps); real threads, "
              "memory ordering and the lock itself are assumed (DESIGN 2), so the property is decided partially in that dimension")

# ---------------------------------------------------------------------------------------------
# correspondence runs: (primitive, configuration) -> how deep
RUNS = [
    dict(name="event-k3", prim="event", cfg="3 0", flavours=["local", "sync"],
         quick=dict(explore=200000, random=(300, 60)), thorough=dict(explore=2000000, random=(5000, 200)),
         random_cfg="12 0"),
    dict(name="event-k3-set", prim="event", cfg="3 1", flavours=["local", "sync"],
         quick=dict(explore=200000), thorough=dict(explore=2000000)),
    dict(name="event-k4", prim="event", cfg="4 0", flavours=["local"],
         quick=dict(explore=0), thorough=dict(explore=3000000), corpus=False),
]

# ---------------------------------------------------------------------------------------------
PROPS = {
    "C14": dict(
        level="proof",
        coq_files=["Properties/C14.v"],
        theorems={"Properties/C14.v": ["C14_iff_latched", "C14_set_wakes_all", "C14_reset_inert", "C14_is_set", "C14_is_set_probe"]},
        prims=["event"], keys=["r", "ws", "p"],
        assumptions=[SCHED_NOTE],
        level_text="Theorems over all histories (any number of futures, any waker choice): a poll completes iff the event is set now or was set since the future's first poll (tracker defined on the operations alone); set() wakes exactly the pending waiters oldest-first through their latest wakers; reset() is inert; is_set() tracks the last set/reset. The model is tied to the crate by exhaustive model-guided exploration (k=3 to a fixpoint, both lock flavours) and random histories comparing results, wake lists and is_set().",
        level_note="Kernel-checked for the Gallina model of EventState; the model/code tie is differential execution (bounded by explored histories); thread schedules covered only as interleavings of critical sections.",
    ),
}
