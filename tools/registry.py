"""Static tables: which Coq files / theorems / correspondence runs / observables belong to
which property.  Counts in the evidence are measured at run time, nothing here is a result."""

ALLOWED_AXIOMS = []   # expected: every property theorem is closed under the global context

TRUSTED_BASE = [
    "Coq 8.16.1 kernel (coqc; vm_compute used for finite-domain proofs and in-kernel model runs; no native_compute)",
    "no Axiom/Parameter/Admitted in the development (grep on every run); Print Assumptions expected 'Closed under the global context'",
    "hand-written Gallina models of the Rust critical sections (coq/Model), tied to /repo by differential execution only",
    "extraction with ExtrOcamlBasic only (Extract Inductive bool/option/unit/list/prod/sumbool/sumor, inlined andb/orb/fst/snd...; no Extract Constant), OCaml 4.13.1, ocaml/modelrun.ml driver",
    "Rust harness (harness/), cfg-guarded read-only hooks in /repo (MANIFEST.hooks), rustc 1.95",
    "lock_api/parking_lot mutual exclusion, atomics' orderings, Waker contract (non re-entrant), Pin: assumed, not modelled",
]

SCHED_NOTE = ("schedules: proved for every interleaving of whole critical sections (the model's steps); real threads, "
              "memory ordering and the lock itself are assumed (DESIGN 2), so the property is decided partially in that dimension")

# ---------------------------------------------------------------------------------------------
# correspondence runs: (primitive, configuration) -> how deep
RUNS = [
    dict(name="event-k3", prim="event", cfg="3 0", flavours=["local", "sync"],
         quick=dict(explore=200000, random=(300, 60)), thorough=dict(explore=2000000, random=(5000, 200)),
         random_cfg="12 0"),
    dict(name="event-k3-set", prim="event", cfg="3 1", flavours=["local", "sync"],
         quick=dict(explore=200000), thorough=dict(explore=2000000)),
    dict(name="event-k4", prim="event", cfg="4 0", flavours=["local"],
         quick=dict(explore=0), thorough=dict(explore=3000000), corpus=False),
    # mutex: cfg = slots, fair
    dict(name="mutex-k3-unfair", prim="mutex", cfg="3 0", flavours=["local", "sync"],
         quick=dict(explore=500000, random=(300, 80)), thorough=dict(explore=500000, random=(5000, 300)), random_cfg="10 0"),
    dict(name="mutex-k3-fair", prim="mutex", cfg="3 1", flavours=["local", "sync"],
         quick=dict(explore=500000, random=(300, 80)), thorough=dict(explore=500000, random=(5000, 300)), random_cfg="10 1"),
    dict(name="mutex-k4-unfair", prim="mutex", cfg="4 0", flavours=["local"],
         quick=dict(explore=0), thorough=dict(explore=3000000), corpus=False),
    dict(name="mutex-k4-fair", prim="mutex", cfg="4 1", flavours=["local"],
         quick=dict(explore=0), thorough=dict(explore=3000000), corpus=False),
    # semaphore: cfg = slots, fair, initial permits, max request, max releasers, permit budget, fixed(=1: the model the theorems are about)
    dict(name="sem-k2-unfair", prim="semaphore", cfg="2 0 0 3 1 3 1", flavours=["local", "sync", "shared"],
         quick=dict(explore=400000, random=(300, 80)), thorough=dict(explore=400000, random=(5000, 300)), random_cfg="8 0 2 4 4 12 1"),
    dict(name="sem-k2-fair", prim="semaphore", cfg="2 1 0 3 1 3 1", flavours=["local", "sync", "shared"],
         quick=dict(explore=400000, random=(300, 80)), thorough=dict(explore=400000, random=(5000, 300)), random_cfg="8 1 2 4 4 12 1"),
    dict(name="sem-k2-unfair-p1", prim="semaphore", cfg="2 0 1 3 2 3 1", flavours=["local"],
         quick=dict(explore=400000), thorough=dict(explore=400000)),
    dict(name="sem-k2-fair-p1", prim="semaphore", cfg="2 1 1 3 2 3 1", flavours=["local"],
         quick=dict(explore=400000), thorough=dict(explore=400000)),
    dict(name="sem-k3-unfair", prim="semaphore", cfg="3 0 0 2 1 2 1", flavours=["local", "shared"],
         quick=dict(explore=0), thorough=dict(explore=3000000), corpus=False),
    dict(name="sem-k3-fair", prim="semaphore", cfg="3 1 0 2 1 2 1", flavours=["local", "shared"],
         quick=dict(explore=0), thorough=dict(explore=3000000), corpus=False),
]

RUNS += [
    # mpmc: cfg = receive slots, send slots, capacity, shared, max handles per side
    dict(name="mpmc-c0", prim="mpmc", cfg="2 2 0 0 0", flavours=["local", "sync"],
         quick=dict(explore=1000000, random=(300, 80)), thorough=dict(explore=1000000, random=(5000, 300)), random_cfg="6 6 0 0 0"),
    dict(name="mpmc-c1", prim="mpmc", cfg="2 1 1 0 0", flavours=["local", "sync", "fixed", "growing"],
         quick=dict(explore=1000000, random=(300, 80)), thorough=dict(explore=1000000, random=(5000, 300)), random_cfg="6 6 1 0 0"),
    dict(name="mpmc-c2", prim="mpmc", cfg="1 2 2 0 0", flavours=["local", "fixed"],
         quick=dict(explore=1000000, random=(300, 80)), thorough=dict(explore=1000000, random=(5000, 300)), random_cfg="6 6 2 0 0"),
    dict(name="mpmc-c1-22", prim="mpmc", cfg="2 2 1 0 0", flavours=["local"],
         quick=dict(explore=0), thorough=dict(explore=4000000), corpus=False),
    dict(name="mpmc-c2-22", prim="mpmc", cfg="2 2 2 0 0", flavours=["local"],
         quick=dict(explore=0), thorough=dict(explore=6000000), corpus=False),
    dict(name="mpmc-shared-c0", prim="mpmc", cfg="1 1 0 1 2", flavours=["shared", "shared-growing"],
         quick=dict(explore=1000000, random=(300, 80)), thorough=dict(explore=1000000, random=(5000, 300)), random_cfg="4 4 0 1 3"),
    dict(name="mpmc-shared-c1", prim="mpmc", cfg="1 1 1 1 2", flavours=["shared", "shared-growing"],
         quick=dict(explore=1000000, random=(300, 80)), thorough=dict(explore=1000000, random=(5000, 300)), random_cfg="4 4 2 1 3"),
    dict(name="mpmc-shared-c1-h3", prim="mpmc", cfg="2 1 1 1 3", flavours=["shared"],
         quick=dict(explore=0), thorough=dict(explore=4000000), corpus=False),
    # oneshot: cfg = slots, broadcast, counted receivers (1 = what C11 requires), shared, max receiver handles
    dict(name="oneshot-local", prim="oneshot", cfg="3 0 1 0 0", flavours=["local", "sync"],
         quick=dict(explore=1000000, random=(200, 40)), thorough=dict(explore=1000000, random=(3000, 100)), random_cfg="8 0 1 0 0"),
    dict(name="bcast-local", prim="oneshot", cfg="3 1 1 0 0", flavours=["local", "sync"],
         quick=dict(explore=1000000, random=(200, 40)), thorough=dict(explore=1000000, random=(3000, 100)), random_cfg="8 1 1 0 0"),
    dict(name="oneshot-shared", prim="oneshot", cfg="2 0 1 1 1", flavours=["shared"],
         quick=dict(explore=1000000, random=(200, 40)), thorough=dict(explore=1000000, random=(3000, 100))),
    dict(name="bcast-shared", prim="oneshot", cfg="2 1 1 1 3", flavours=["shared"],
         quick=dict(explore=1000000, random=(200, 40)), thorough=dict(explore=1000000, random=(3000, 100))),
]

MPMC_RUNS = ["mpmc-c0", "mpmc-c1", "mpmc-c2", "mpmc-c1-22", "mpmc-c2-22", "mpmc-shared-c0", "mpmc-shared-c1", "mpmc-shared-c1-h3"]
ONESHOT_RUNS = ["oneshot-local", "bcast-local", "oneshot-shared", "bcast-shared"]
MUTEX_RUNS = ["mutex-k3-unfair", "mutex-k3-fair", "mutex-k4-unfair", "mutex-k4-fair"]
SEM_RUNS = ["sem-k2-unfair", "sem-k2-fair", "sem-k2-unfair-p1", "sem-k2-fair-p1", "sem-k3-unfair", "sem-k3-fair"]

# ---------------------------------------------------------------------------------------------
PROPS = {
    "C02": dict(
        level="proof", coq_files=["Properties/C02.v"],
        theorems={"Properties/C02.v": ["C02_guards_le_1", "C02_grant_only_when_free", "C02_guard_count", "C02_is_locked_exact"]},
        runs=MUTEX_RUNS, keys=["r", "p"], assumptions=[SCHED_NOTE],
        level_text="Theorems over every reachable state of the mutex model (any number of lock futures, both fairness modes): guards <= 1, locked iff one guard, a poll/try_lock completes only from a guard-free state and creates exactly one, is_locked() exact. Model tied to the crate by exhaustive model-guided exploration (k=3 fixpoint, local and parking_lot flavours) comparing results, is_locked() and the number of guard objects the harness holds.",
        level_note="Exclusive access to T follows from guards<=1 only under the atomicity assumptions (lock_api mutual exclusion; all state inside the lock). " + SCHED_NOTE,
    ),
    "C03": dict(
        level="proof", coq_files=["Properties/C03.v"],
        theorems={"Properties/C03.v": ["C03_woken_when_free", "C03_pending_is_arrivals", "C03_progress"]},
        runs=MUTEX_RUNS, keys=["r", "w"], assumptions=[SCHED_NOTE],
        level_text="Theorem over all histories: whenever the mutex is free and lock futures are pending, a pending future (fair: the oldest in trace-recomputed arrival order) has been woken since its last poll through the waker of that poll (tracker defined on the observable trace); a notified future polled while free succeeds. Correspondence compares results and ordered wake lists on every transition of the k=3 state space with waker swaps.",
        level_note="Liveness ('eventually completes') is given as the safety invariant + one-step progress lemma, not as a temporal theorem. " + SCHED_NOTE,
    ),
    "C04": dict(
        level="proof", coq_files=["Properties/C04.v"],
        theorems={"Properties/C04.v": ["C04_fifo", "C04_queue_is_arrivals", "C04_drop_is_filter"]},
        runs=["mutex-k3-fair", "mutex-k4-fair"], keys=["r"],
        level_text="Theorem over all fair-mode histories: a lock future completes only if it is the oldest pending one in the arrival order recomputed from the trace, try_lock only if nobody is pending; the wait queue equals that arrival order; drop = filter. Correspondence compares every result on the fair state space.",
        level_note="Kernel-checked on the Gallina model; tie to the code by differential execution.",
    ),
    "C05": dict(
        level="proof", coq_files=["Properties/C05.v"],
        theorems={"Properties/C05.v": ["C05_ledger", "C05_grant_exact", "C05_releaser_once", "C05_disarm"]},
        runs=SEM_RUNS, keys=["r", "p"], assumptions=[SCHED_NOTE, "permits + release amounts stay below usize::MAX (source has a TODO: overflow check)"],
        monitor=dict(id=5, runs=["sem-k2-unfair", "sem-k2-fair"]),
        level_text="Theorem over all histories (fair/unfair, any requests, with or without the wake-up repairs): the ledger monitor over the observable trace holds - permits() = initial + released - taken + returned after every call, grants only when enough permits and of exactly n, releaser returns its amount once, zero after disarm. Correspondence: results (incl. observed permit deltas) and permits() on every transition, borrowed, parking_lot and shared flavours.",
        level_note="Overflow of the permit counter is excluded by the contract predicate. " + SCHED_NOTE,
    ),
    "C06": dict(
        level="proof", coq_files=["Properties/C06.v"],
        theorems={"Properties/C06.v": ["C06_head_not_stranded", "C06_progress", "C06_refuted_pinned"]},
        runs=SEM_RUNS, keys=["r", "w", "p"], assumptions=[SCHED_NOTE, "wakers private to each future (so that wake events are attributable from the trace)"],
        monitor=dict(id=6, runs=["sem-k2-unfair", "sem-k2-fair"]),
        level_text="Theorem over all histories of the repaired code, both fairness modes: at every quiescent point, if requests are pending and none holds an unconsumed wake-up then the longest-waiting one (ordering rule of the property, recomputed from the trace) does not fit into permits(); notified request that fits completes when polled; plus a machine-checked refutation for the pre-repair model (finding D1a). Correspondence on results, ordered wakes and permits(); the extracted monitor is also evaluated on the crate's own traces to exhibit a failing history.",
        level_note="'Eventually completes' is the invariant + one-step progress, not a temporal theorem. " + SCHED_NOTE,
    ),
    "C07": dict(
        level="proof", coq_files=["Properties/C07.v"],
        theorems={"Properties/C07.v": ["C07_fifo", "C07_queue_is_arrivals", "C07_drop_is_filter"]},
        runs=["sem-k2-fair", "sem-k2-fair-p1", "sem-k3-fair"], keys=["r"],
        monitor=dict(id=7, runs=["sem-k2-fair"]),
        level_text="Theorem over all fair-mode histories: the fair-order monitor holds (a request n>0 completes only as the oldest pending one or with nobody pending; n=0 completes at once), the queue equals the trace-recomputed arrival order, cancel = filter. Correspondence on every result of the fair state spaces.",
        level_note="Kernel-checked on the Gallina model; tie to the code by differential execution.",
    ),
    "C11": dict(
        level="proof", coq_files=["Properties/C11.v"],
        runs=MPMC_RUNS + ONESHOT_RUNS, keys=["r", "w", "p", "v"], assumptions=[SCHED_NOTE],
        level_text="(in progress)", level_note="(in progress)",
    ),
    "C16": dict(
        level="proof", coq_files=["Properties/C16.v"],
        pre_coq="python3 tools/rs2coq_types.py /repo/src coq/Gen/TypesGen.v && make -C coq Gen/TypesGen.vo >/dev/null 2>&1; true",
        theorems={"Properties/C16.v": ["C16_futures_not_unpin", "C16_sound", "C16_table_covers_impls", "C16_complete"]},
        runs=[], keys=[], extra=["c16"],
        trusted_extra=["tools/rs2coq_types.py (translator: struct/enum fields, unsafe impl bounds -> coq/Gen/TypesGen.v, regenerated on every run)",
                       "coq/Model/AutoTraits.v leaf rules for core/alloc/lock_api types, validated on every run against rustc on ~1500 instantiations with witness types (tools/c16.py probe crate)",
                       "coq/Model/AutoTraitsSpec.v `required` / `promised` tables: they ARE the definition of 'sound' and 'promised'"],
        level_text="Translator route: the struct / unsafe-impl facts are regenerated from /repo/src on every run; theorems (complete case analysis over all Send/Sync/Unpin bit assignments of the type parameters, closed by vm_compute): every future/stream is !Unpin for every instantiation; whenever a public type is Send/Sync the bounds required by the hand-written soundness table hold; every explicit unsafe impl is covered by the table; promised instances hold. The auto-trait rules + translator are validated against rustc itself (probe crate, autoref specialisation) on every run; a falsifying assignment is instantiated with witness types and confirmed with rustc as the failing input.",
        level_note="The auto-trait model is a simplification of rustc's solver (no lifetimes, no coinduction); soundness is relative to the requirement table.",
        assumptions=["Pin guarantees that a !Unpin future is not moved after its first poll (language guarantee)"],
        technique="translator (Rust source -> Coq data) + Coq proof by exhaustive case analysis + rustc probe validation",
    ),
    "C14": dict(
        level="proof",
        coq_files=["Properties/C14.v"],
        theorems={"Properties/C14.v": ["C14_iff_latched", "C14_set_wakes_all", "C14_reset_inert", "C14_is_set", "C14_is_set_probe"]},
        prims=["event"], keys=["r", "ws", "p"],
        assumptions=[SCHED_NOTE],
        level_text="Theorems over all histories (any number of futures, any waker choice): a poll completes iff the event is set now or was set since the future's first poll (tracker defined on the operations alone); set() wakes exactly the pending waiters oldest-first through their latest wakers; reset() is inert; is_set() tracks the last set/reset. The model is tied to the crate by exhaustive model-guided exploration (k=3 to a fixpoint, both lock flavours) and random histories comparing results, wake lists and is_set().",
        level_note="Kernel-checked for the Gallina model of EventState; the model/code tie is differential execution (bounded by explored histories); thread schedules covered only as interleavings of critical sections.",
    ),
}
