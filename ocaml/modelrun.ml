(* Driver around the extracted Coq models.  Parsing, printing, exploration and
   comparison only -- every transition is computed by extracted code.

   history line :  <prim>;<cfg ints>;<mode A|L>;<op ints>;<op ints>;...
   observed line:  <obs>;<obs>;...   with  <obs> = r:..|w:..|v:..|p:..|t:..|q:..|a:..
                   (one <obs> per step in mode A, only the last step in mode L)      *)
open BinNums
module List = Stdlib.List
module String = Stdlib.String

(* ---------- numbers ---------- *)
let rec pos_of_int n =
  if n = 1 then Coq_xH
  else if n land 1 = 0 then Coq_xO (pos_of_int (n lsr 1))
  else Coq_xI (pos_of_int (n lsr 1))
let n_of_int n = if n = 0 then N0 else Npos (pos_of_int n)
let ten = n_of_int 10
let rec int_of_pos = function
  | Coq_xH -> 1 | Coq_xO p -> 2 * int_of_pos p | Coq_xI p -> 2 * int_of_pos p + 1
let int_of_n = function N0 -> 0 | Npos p -> int_of_pos p
let n_of_string s =
  let r = ref N0 in
  String.iter (fun c ->
    if c < '0' || c > '9' then failwith ("bad number " ^ s);
    r := BinNat.N.add (BinNat.N.mul !r ten) (n_of_int (Char.code c - 48))) s;
  !r
let string_of_n n =
  if n = N0 then "0" else begin
    let b = Buffer.create 20 in
    let rec go n acc = if n = N0 then acc else
      let (q, r) = BinNat.N.div_eucl n ten in go q (Char.chr (48 + int_of_n r) :: acc) in
    List.iter (Buffer.add_char b) (go n []); Buffer.contents b end

let split_on c s = String.split_on_char c s
let words s = List.filter (fun x -> x <> "") (split_on ' ' s)
let nlist s = List.map n_of_string (words s)
let str_nlist l = String.concat " " (List.map string_of_n l)

(* ---------- machines ---------- *)
let machines : (string * Base.machine) list = Registry.machines

let machine name =
  try List.assoc name machines with Not_found -> failwith ("unknown primitive " ^ name)

let obs_fields (o : Base.obs) =
  [ "r", o.Base.o_res; "w", o.Base.o_wake; "v", o.Base.o_val; "p", o.Base.o_probe;
    "t", o.Base.o_term; "q", o.Base.o_queue; "a", [o.Base.o_alloc] ]

let str_obs o =
  String.concat "|" (List.map (fun (k, v) -> k ^ ":" ^ str_nlist v) (obs_fields o))

let str_history prim cfg mode ops =
  String.concat ";" (prim :: str_nlist cfg :: mode :: List.map str_nlist ops)

type history = { prim : string; cfg : coq_N list; mode : string; ops : coq_N list list }

let parse_history line =
  match split_on ';' line with
  | prim :: cfg :: mode :: ops -> { prim; cfg = nlist cfg; mode; ops = List.map nlist ops }
  | _ -> failwith ("bad history line: " ^ line)

(* ---------- exploration: breadth first over model states, to a fixpoint ---------- *)
(* polls with a waker shared between futures (one task polling several futures: join!, select!):
   the models' [enabled] gives every future two wakers of its own (2f, 2f+1); in shared-waker
   exploration every poll may also be made with waker SHARED_WAKER.  (operation code, position
   of the waker id) per primitive. *)
let shared_waker = n_of_string "40"
let poll_ops = function
  | "event" | "mutex" | "semaphore" -> [1, 2]
  | "mpmc" -> [1, 2; 5, 2; 31, 2]
  | "oneshot" | "timer" -> [3, 2]
  | "state" -> [4, 2]
  | _ -> []
let with_shared_wakers prim (ops : coq_N list list) =
  let po = poll_ops prim in
  let extra = List.filter_map (fun o ->
    match o with
    | c :: _ when List.mem_assoc (int_of_n c) po && List.length o = 3 ->
      let i = List.assoc (int_of_n c) po in
      Some (List.mapi (fun j x -> if j = i then shared_waker else x) o)
    | _ -> None) ops in
  ops @ List.sort_uniq compare extra

let explore ?(mode="L") ?(alt_paths=false) ?(shared=false) prim cfg max_states out =
  let m = machine prim in
  let m = if shared then { m with Base.m_enabled = (fun s -> with_shared_wakers prim (m.Base.m_enabled s)) } else m in
  let s0 = m.Base.m_init cfg in
  let key s = Marshal.to_string (m.Base.m_key s) [Marshal.No_sharing] in
  (* seen: state -> codes of the last operation of the paths whose continuations were emitted.
     The model state hides nothing, but an implementation that has DIVERGED internally may be in
     different states after two paths the model identifies (e.g. a wake-up handed over by a
     cancellation vs. delivered directly).  So a state that is re-reached by a path ending in a
     different KIND of operation gets its outgoing transitions executed after that path too (at
     most two alternatives per state). *)
  let seen : (string, int list ref) Hashtbl.t = Hashtbl.create 65537 in
  (* kind of a step: operation code and whether it woke somebody / moved a value *)
  let kind o (ob : Base.obs) =
    (match o with c :: _ -> int_of_n c | [] -> -1) * 4
    + (if ob.Base.o_wake <> [] then 2 else 0) + (if ob.Base.o_val <> [] then 1 else 0) in
  let q = Queue.create () in
  Hashtbl.add seen ("-" ^ key s0) (ref [-4]); Queue.add (s0, [], 0) q;
  let states = ref 1 and trans = ref 0 and maxd = ref 0 and truncated = ref false and alt = ref 0 in
  while not (Queue.is_empty q) do
    let (s, rpath, d) = Queue.pop q in
    if d > !maxd then maxd := d;
    List.iter (fun o ->
      let (s', ob) = m.Base.m_step s o in
      incr trans;
      output_string out (str_history prim cfg mode (List.rev (o :: rpath))); output_char out '\n';
      (* a step that returns unit and wakes somebody is a hand-over (cancellation of a notified
         waiter, unlock, release, close ...): its successor is explored as a state of its own, so
         that chains of hand-overs are followed even where the model reaches the same state by
         a shorter path *)
      let handover = ob.Base.o_wake <> [] && (match ob.Base.o_res with c :: _ -> int_of_n c = 0 | [] -> false) in
      let k = (if handover then "H" else "-") ^ key s' in
      match Hashtbl.find_opt seen k with
      | None ->
        if !states >= max_states then truncated := true
        else begin Hashtbl.add seen k (ref [kind o ob]); incr states; Queue.add (s', o :: rpath, d + 1) q end
      | Some codes ->
        if alt_paths && not (List.mem (kind o ob) !codes) && List.length !codes < 4 then begin
          codes := kind o ob :: !codes;
          List.iter (fun o2 ->
            incr alt;
            output_string out (str_history prim cfg mode (List.rev (o2 :: o :: rpath))); output_char out '\n')
            (m.Base.m_enabled s')
        end) (m.Base.m_enabled s)
  done;
  ignore !alt;
  Printf.eprintf "{\"prim\":\"%s\",\"cfg\":\"%s\",\"states\":%d,\"transitions\":%d,\"depth\":%d,\"exhaustive\":%b}\n"
    prim (str_nlist cfg) !states !trans !maxd (not !truncated)

(* ---------- random contract-respecting histories ---------- *)
let random_histories prim cfg seed count len out =
  let m = machine prim in
  Random.init seed;
  for _ = 1 to count do
    let s = ref (m.Base.m_init cfg) and ops = ref [] in
    (try for _ = 1 to len do
      let en = Array.of_list (m.Base.m_enabled !s) in
      if Array.length en = 0 then raise Exit;
      let o = en.(Random.int (Array.length en)) in
      let (s', _) = m.Base.m_step !s o in
      s := s'; ops := o :: !ops
    done with Exit -> ());
    output_string out (str_history prim cfg "A" (List.rev !ops)); output_char out '\n'
  done

(* ---------- scale walks: many waiters at once ---------- *)
(* Greedy walks that only use the machine interface: phase A prefers the operation after which
   the wait queue is longest (fills the queue with up to [target] waiters), phase B prefers the
   operation that wakes most (set / send / close / release / expire with a long queue), with
   random choices mixed in.  Exhaustive exploration stops at 3-4 futures; a defect that needs
   five waiters (a fixed-size batch of wakers, a capped loop) or 256 (a narrow counter) only
   shows here. *)
let scale_histories prim cfg seed count len target out =
  let m = machine prim in
  Random.init seed;
  let pick l = List.nth l (Random.int (List.length l)) in
  let sample n l =
    let a = Array.of_list l in
    let k = Array.length a in
    if k <= n then l else List.init n (fun _ -> a.(Random.int k)) in
  let qlen (ob : Base.obs) = List.length ob.Base.o_queue and wlen (ob : Base.obs) = List.length ob.Base.o_wake in
  for _ = 1 to count do
    let s = ref (m.Base.m_init cfg) and ops = ref [] and filled = ref false in
    (try for i = 1 to len do
      let en = m.Base.m_enabled !s in
      if en = [] then raise Exit;
      let fill = not !filled && i < len * 2 / 3 in
      let o =
        if Random.int 8 = 0 && not fill then pick en
        else if fill then begin
          (* longest queue after this operation, then longest queue reachable with one more
             operation (create, then poll), never an operation that wakes somebody *)
          let scored = List.map (fun o ->
            let (s', ob) = m.Base.m_step !s o in
            let look = List.fold_left (fun a o2 -> let (_, ob2) = m.Base.m_step s' o2 in
              if wlen ob2 = 0 then max a (qlen ob2) else a) 0 (sample 16 (m.Base.m_enabled s')) in
            (o, (if wlen ob > 0 then -1 else qlen ob * 1000 + look))) (sample 24 en) in
          let best = List.fold_left (fun a (_, q) -> max a q) min_int scored in
          if best / 1000 >= target then filled := true;
          pick (List.filter_map (fun (o, q) -> if q = best then Some o else None) scored)
        end else begin
          let scored = List.map (fun o -> let (_, ob) = m.Base.m_step !s o in (o, wlen ob)) en in
          let best = List.fold_left (fun a (_, w) -> max a w) 0 scored in
          if best = 0 && Random.int 3 = 0 then filled := false;
          pick (List.filter_map (fun (o, w) -> if w = best then Some o else None) scored)
        end in
      let (s', _) = m.Base.m_step !s o in
      s := s'; ops := o :: !ops
    done with Exit -> ());
    output_string out (str_history prim cfg "A" (List.rev !ops)); output_char out '\n'
  done

(* ---------- continuations of given histories (divergence follow-up) ---------- *)
let extend depth hist_file out =
  let hc = open_in hist_file in
  (try while true do
    let h = parse_history (input_line hc) in
    let m = machine h.prim in
    let s0 = List.fold_left (fun s o -> fst (m.Base.m_step s o)) (m.Base.m_init h.cfg) h.ops in
    let rec go s rpath d =
      if d > 0 then
        List.iter (fun o ->
          let (s', _) = m.Base.m_step s o in
          output_string out (str_history h.prim h.cfg "A" (h.ops @ List.rev (o :: rpath))); output_char out '\n';
          go s' (o :: rpath) (d - 1)) (m.Base.m_enabled s) in
    go s0 [] depth
  done with End_of_file -> ())

(* continuation that lets every future consume its wake-up: poll every pollable future (one
   waker variant each), in ascending and in descending order, two rounds *)
let extend_drain hist_file out =
  let hc = open_in hist_file in
  (try while true do
    let h = parse_history (input_line hc) in
    let m = machine h.prim in
    let po = poll_ops h.prim in
    let s0 = List.fold_left (fun s o -> fst (m.Base.m_step s o)) (m.Base.m_init h.cfg) h.ops in
    List.iter (fun rev ->
      let s = ref s0 and acc = ref [] in
      for _ = 1 to 2 do
        let polls = List.filter (fun o -> match o with c :: _ -> List.mem_assoc (int_of_n c) po | [] -> false) (m.Base.m_enabled !s) in
        (* one variant per (code, future) *)
        let seen = Hashtbl.create 16 in
        let polls = List.filter (fun o -> match o with c :: f :: _ ->
          let k = (int_of_n c, int_of_n f) in if Hashtbl.mem seen k then false else (Hashtbl.add seen k (); true) | _ -> false) polls in
        let polls = if rev then List.rev polls else polls in
        List.iter (fun o ->
          (* the future may have completed meanwhile: only polls still enabled *)
          if List.mem o (m.Base.m_enabled !s) then begin
            let (s', _) = m.Base.m_step !s o in s := s'; acc := o :: !acc end) polls
      done;
      if !acc <> [] then begin
        output_string out (str_history h.prim h.cfg "A" (h.ops @ List.rev !acc)); output_char out '\n' end) [false; true]
  done with End_of_file -> ())

(* ---------- comparison ---------- *)
let parse_obs s =
  List.map (fun f -> match String.index_opt f ':' with
    | Some i -> (String.sub f 0 i, String.sub f (i + 1) (String.length f - i - 1))
    | None -> (f, "")) (split_on '|' s)

let json_escape s = String.concat "\\\"" (split_on '"' s)

let compare_files ?(shards = 1) ?(shard = 0) hist_file obs_file =
  let hc = open_in hist_file and oc = open_in obs_file in
  let lines = ref 0 and steps = ref 0 and mism = ref 0 and lineno = ref 0 in
  let keystat = Hashtbl.create 16 in
  (try while true do
    let hl = input_line hc in
    let ol = try input_line oc with End_of_file -> "MISSING" in
    incr lineno;
    if (!lineno - 1) mod shards <> shard then () else begin
    incr lines;
    let h = parse_history hl in
    let m = machine h.prim in
    let exp = Base.m_run m (m.Base.m_init h.cfg) h.ops in
    let n = List.length exp in
    let exp_sel = if h.mode = "A" then List.mapi (fun i o -> (i, o)) exp
                  else (match List.rev exp with [] -> [] | o :: _ -> [(n - 1, o)]) in
    let got = if ol = "" then [] else split_on ';' ol in
    if List.length got <> List.length exp_sel then begin
      incr mism;
      Printf.printf "{\"line\":%d,\"step\":-1,\"key\":\"shape\",\"expected\":\"%d obs\",\"observed\":\"%s\",\"history\":\"%s\"}\n"
        !lines (List.length exp_sel) (json_escape ol) hl
    end else
      List.iter2 (fun (i, e) g ->
        incr steps;
        let gf = parse_obs g in
        List.iter (fun (k, v) ->
          let ev = str_nlist v in
          let gv = try String.trim (List.assoc k gf) with Not_found -> "<absent>" in
          if ev <> gv then begin
            incr mism;
            Hashtbl.replace keystat k (1 + try Hashtbl.find keystat k with Not_found -> 0);
            Printf.printf "{\"line\":%d,\"step\":%d,\"key\":\"%s\",\"expected\":\"%s\",\"observed\":\"%s\",\"history\":\"%s\"}\n"
              !lines i k ev (json_escape gv) hl
          end;
          (* order-insensitive view of the queue snapshot (multiset of its words), key "qs":
             what C01 is about is WHICH nodes are linked, not in which order *)
          if k = "q" && ev <> gv then begin
            let sorted x = String.concat " " (List.sort compare (words x)) in
            if sorted ev <> sorted gv then begin
              incr mism;
              Printf.printf "{\"line\":%d,\"step\":%d,\"key\":\"qs\",\"expected\":\"%s\",\"observed\":\"%s\",\"history\":\"%s\"}\n"
                !lines i ev (json_escape gv) hl
            end
          end;
          (* order-insensitive view of the wake list, reported under key "ws" *)
          if k = "w" && ev <> gv then begin
            let sorted x = String.concat " " (List.sort compare (words x)) in
            if sorted ev <> sorted gv then begin
              incr mism;
              Printf.printf "{\"line\":%d,\"step\":%d,\"key\":\"ws\",\"expected\":\"%s\",\"observed\":\"%s\",\"history\":\"%s\"}\n"
                !lines i ev (json_escape gv) hl
            end
          end) (obs_fields e)) exp_sel got
    end
  done with End_of_file -> ());
  Printf.eprintf "{\"histories\":%d,\"steps_compared\":%d,\"mismatches\":%d}\n" !lines !steps !mism

(* ---------- monitors evaluated on observed traces (mode A lines) ---------- *)
let obs_of_string g : Base.obs =
  let f = parse_obs g in
  let get k = try nlist (List.assoc k f) with Not_found -> [] in
  { Base.o_res = get "r"; o_wake = get "w"; o_val = get "v"; o_probe = get "p";
    o_term = get "t"; o_queue = get "q"; o_alloc = (match get "a" with [x] -> x | _ -> N0) }

(* first failing prefix length of a trace under monitor [which], or None *)
let first_failure m which cfg tr =
  if m.Base.m_monitor which cfg tr then None
  else begin
    let arr = Array.of_list tr in
    let n = Array.length arr in
    let res = ref n in
    (try for i = 1 to n do
      if not (m.Base.m_monitor which cfg (Array.to_list (Array.sub arr 0 i))) then (res := i; raise Exit)
    done with Exit -> ());
    Some !res
  end

let monitor_files which hist_file obs_file use_model =
  let hc = open_in hist_file in
  let oc = if use_model then None else Some (open_in obs_file) in
  let lines = ref 0 and bad = ref 0 and checked = ref 0 in
  (try while true do
    let hl = input_line hc in
    let ol = match oc with Some c -> (try input_line c with End_of_file -> "") | None -> "" in
    incr lines;
    let h = parse_history hl in
    if h.mode = "A" then begin
      let m = machine h.prim in
      let obs = if use_model then Base.m_run m (m.Base.m_init h.cfg) h.ops
                else List.map obs_of_string (if ol = "" then [] else split_on ';' ol) in
      if List.length obs = List.length h.ops then begin
        incr checked;
        (* a history is contract-respecting only relative to what the implementation itself
           answered: cut the trace before the first call the implementation rejected as not
           callable (99), or a POLL it answered with a panic (3) -- a poll the model considers
           legal may be a poll-after-completion for a diverged implementation; a panic of any
           other contract-respecting call stays in the trace and is judged by the monitor *)
        let is_poll o =
          match h.prim, (match o with c :: _ -> int_of_n c | [] -> -1) with
          | ("event" | "mutex" | "semaphore"), 1 -> true
          | "mpmc", (1 | 5 | 31) -> true
          | "oneshot", 3 -> true
          | "state", 4 -> true
          | "timer", 3 -> true
          | _ -> false in
        let rec cut = function
          | [] -> []
          | (o, ob) :: r ->
              (match ob.Base.o_res with
               | c :: _ when not use_model && (int_of_n c = 99 || (int_of_n c = 3 && is_poll o)) -> []
               | _ -> (o, ob) :: cut r) in
        let tr = cut (List.combine h.ops obs) in
        match first_failure m which h.cfg tr with
        | None -> ()
        | Some i ->
            incr bad;
            let rec take n l = if n = 0 then [] else match l with [] -> [] | x :: r -> x :: take (n-1) r in
            Printf.printf "{\"line\":%d,\"prefix\":%d,\"history\":\"%s\"}\n" !lines i
              (str_history h.prim h.cfg "A" (take i h.ops))
      end
    end
  done with End_of_file -> ());
  Printf.eprintf "{\"histories\":%d,\"checked\":%d,\"failing\":%d}\n" !lines !checked !bad

(* ---------- print the model's own trace ---------- *)
let print_model hist_file =
  let hc = if hist_file = "-" then stdin else open_in hist_file in
  (try while true do
    let h = parse_history (input_line hc) in
    let m = machine h.prim in
    let exp = Base.m_run m (m.Base.m_init h.cfg) h.ops in
    let sel = if h.mode = "A" then exp else (match List.rev exp with [] -> [] | o :: _ -> [o]) in
    print_endline (String.concat ";" (List.map str_obs sel))
  done with End_of_file -> ())

(* ---------- threaded runs: generation and linearizability against the model ---------- *)
(* thread programs come from a random contract-respecting walk of the sequential model (mode
   "P<t>"; the executor deals the operations to t threads, see harness/src/main.rs); the walk only
   makes the programs plausible, the threads interleave as they like *)
let par_histories prim cfg seed count len threads out =
  let m = machine prim in
  Random.init seed;
  for _ = 1 to count do
    let s = ref (m.Base.m_init cfg) and ops = ref [] in
    (try for _ = 1 to len do
      (* not in threaded programs: teardown; semaphore releaser ops (they name a releaser by its
         position in the model's global list, which a thread cannot know) *)
      let keep o = o <> [n_of_int 20] &&
        not (prim = "semaphore" && (match o with c :: _ -> c = n_of_int 5 || c = n_of_int 6 | [] -> false)) &&
        (* state broadcast: the id-jump hook needs an empty wait queue at its linearization point *)
        not (prim = "state" && (match o with c :: _ -> c = n_of_int 15 | [] -> false)) in
      let en = Array.of_list (List.filter keep (m.Base.m_enabled !s)) in
      if Array.length en = 0 then raise Exit;
      let o = en.(Random.int (Array.length en)) in
      let (s', _) = m.Base.m_step !s o in
      s := s'; ops := o :: !ops
    done with Exit -> ());
    output_string out (str_history prim cfg ("P" ^ string_of_int threads) (List.rev !ops)); output_char out '\n'
  done

(* Wing-Gong search: is there a total order of the executed operations that respects real time
   (a returned before b was invoked => a before b) and in which the model produces, for every
   operation, the observed result code, wake list and value movements? *)
let linearize_files hist_file obs_file =
  let hc = open_in hist_file and oc = open_in obs_file in
  let lines = ref 0 and bad = ref 0 and executed = ref 0 and overlapping = ref 0 in
  (try while true do
    let hl = input_line hc in
    let ol = try input_line oc with End_of_file -> "" in
    incr lines;
    let h = parse_history hl in
    let m = machine h.prim in
    let ents = Array.of_list (split_on ';' ol) in
    let ops = Array.of_list h.ops in
    let ex = ref [] in
    Array.iteri (fun i e ->
      if i < Array.length ops && e <> "-" && e <> "" then begin
        match String.index_opt e '|' with
        | Some k ->
          (match words (String.sub e 0 k) with
           | [a; b] -> ex := (ops.(i), int_of_string a, int_of_string b,
                              obs_of_string (String.sub e (k + 1) (String.length e - k - 1))) :: !ex
           | _ -> ())
        | None -> ()
      end) ents;
    let ex = Array.of_list (List.rev !ex) in
    let n = Array.length ex in
    executed := !executed + n;
    if n > 60 then failwith "linearize: more than 60 operations in one history";
    let pred = Array.make n 0 in
    let conc = ref false in
    for i = 0 to n - 1 do
      let (_, si, ei, _) = ex.(i) in
      for j = 0 to n - 1 do
        let (_, sj, ej, _) = ex.(j) in
        if ej < si then pred.(i) <- pred.(i) lor (1 lsl j)
        else if i <> j && sj < ei && si < ej then conc := true
      done
    done;
    if !conc then incr overlapping;
    let hd1 l = match l with x :: _ -> [x] | [] -> [] in
    let matches (o : Base.obs) (g : Base.obs) =
      hd1 o.Base.o_res = hd1 g.Base.o_res && o.Base.o_wake = g.Base.o_wake && o.Base.o_val = g.Base.o_val in
    let full = (1 lsl n) - 1 in
    let memo = Hashtbl.create 1024 in
    let key s = Marshal.to_string (m.Base.m_key s) [Marshal.No_sharing] in
    let rec go mask s =
      if mask = full then true else begin
        let k = (mask, key s) in
        if Hashtbl.mem memo k then false else begin
          let ok = ref false in
          let i = ref 0 in
          while not !ok && !i < n do
            if mask land (1 lsl !i) = 0 && pred.(!i) land (lnot mask) = 0 then begin
              let (op, _, _, g) = ex.(!i) in
              let (s', o) = m.Base.m_step s op in
              if matches o g && go (mask lor (1 lsl !i)) s' then ok := true
            end;
            incr i
          done;
          if not !ok then Hashtbl.add memo k ();
          !ok
        end
      end in
    if not (go 0 (m.Base.m_init h.cfg)) then begin
      incr bad;
      Printf.printf "{\"line\":%d,\"key\":\"linearizability\",\"history\":\"%s\",\"observed\":\"%s\"}\n" !lines hl (json_escape ol)
    end
  done with End_of_file -> ());
  Printf.eprintf "{\"histories\":%d,\"operations\":%d,\"with_overlap\":%d,\"not_linearizable\":%d}\n" !lines !executed !overlapping !bad

let () =
  match Array.to_list Sys.argv with
  | _ :: "pargen" :: prim :: cfg :: seed :: count :: len :: t :: _ ->
      par_histories prim (nlist cfg) (int_of_string seed) (int_of_string count) (int_of_string len) (int_of_string t) stdout
  | _ :: "linearize" :: h :: o :: _ -> linearize_files h o
  | _ :: "explore" :: prim :: cfg :: max :: _ -> explore prim (nlist cfg) (int_of_string max) stdout
  | _ :: "explore-sw" :: prim :: cfg :: max :: _ -> explore ~shared:true prim (nlist cfg) (int_of_string max) stdout
  | _ :: "explore-sw-full" :: prim :: cfg :: max :: _ -> explore ~mode:"A" ~shared:true prim (nlist cfg) (int_of_string max) stdout
  | _ :: "explore-full" :: prim :: cfg :: max :: _ -> explore ~mode:"A" prim (nlist cfg) (int_of_string max) stdout
  | _ :: "scale" :: prim :: cfg :: seed :: count :: len :: target :: _ ->
      scale_histories prim (nlist cfg) (int_of_string seed) (int_of_string count) (int_of_string len) (int_of_string target) stdout
  | _ :: "random" :: prim :: cfg :: seed :: count :: len :: _ ->
      random_histories prim (nlist cfg) (int_of_string seed) (int_of_string count) (int_of_string len) stdout
  | _ :: "compare" :: h :: o :: k :: i :: _ -> compare_files ~shards:(int_of_string k) ~shard:(int_of_string i) h o
  | _ :: "compare" :: h :: o :: _ -> compare_files h o
  | _ :: "print" :: h :: _ -> print_model h
  | _ :: "extend" :: d :: h :: _ -> extend (int_of_string d) h stdout
  | _ :: "extend-drain" :: h :: _ -> extend_drain h stdout
  | _ :: "monitor" :: which :: h :: o :: _ -> monitor_files (n_of_string which) h o false
  | _ :: "monitor-model" :: which :: h :: _ -> monitor_files (n_of_string which) h "" true
  | _ -> prerr_endline "usage: modelrun explore|random|compare|print ..."; exit 2
