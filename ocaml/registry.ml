(* name -> extracted machine *)
let machines : (string * Base.machine) list = [
  "event", EventSpec.machine;
  "mutex", MutexSpec.machine;
  "semaphore", SemaphoreSpec.machine;
  "mpmc", MpmcStream.machine;
  "oneshot", OneshotSpec.machine;
  "state", StateBcastSpec.machine;
  "timer", TimerSpec.machine;
  "ringbuf", RingBuf.machine;
  "dlist", DList.machine;
  "pheap", PHeapPtr.machine;
]
